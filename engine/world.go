package main

import (
	"fmt"
	"go/token"
	"go/types"
	"golang.org/x/tools/go/callgraph"
	"golang.org/x/tools/go/callgraph/cha"
	"os"
	"sort"
	"strconv"
	"strings"
	"sync"

	"golang.org/x/tools/go/packages"
	"golang.org/x/tools/go/ssa"
	"golang.org/x/tools/go/ssa/ssautil"
)

type World struct {
	fieldWriters   map[string]map[*ssa.Function]bool // in-repo functions storing to a field of an existing (non-fresh) object
	chaG           *callgraph.Graph
	chaReachC      map[*ssa.Function]map[*ssa.Function]bool
	osigs          map[string]*types.Signature
	Thorough       bool // thorough tier: consistency obligations for the zero-annotation sweeps too
	lines          map[string][]string
	reachCache     map[[2]*ssa.Function]bool
	repo           string
	fset           *token.FileSet
	pkgs           []*packages.Package
	prog           *ssa.Program
	ct             *ContractTable
	funcs          map[string]*ssa.Function
	pkgByPath      map[string]*types.Package
	pkgsByName     map[string][]*types.Package
	contractErrors []string
	cloCells       map[string]*Closure
	mutGlobals     map[string]bool
	mutScanned     bool
	overflowFuncs  map[string]bool
	allFuncs       map[*ssa.Function]bool
	inlineBudget   int
	implCache      map[string][]*ssa.Function
	nfCache        map[string]*nfCand
	privSent       map[string][]string
	coneAllIfaces  bool     // cone construction follows every in-repo interface (error-kind sweep)
	coneBound      bool     // cone construction follows bound method values (f.hf.CreateAuthorizer handed to a helper)
	errKind        *ErrKind // error-kind sweep in force
	mutFields      map[string]bool
	mutFieldsDone  bool
	mu             sync.Mutex
	importAlias    map[string]map[string]string // package path -> local import name -> imported path
	freshCallee    map[*ssa.Function]bool
	fieldFuncs     map[string]*ssa.Function
	fieldFuncsBad  map[string]bool
	sentinels      map[string]int // package-level error variables initialised with errors.New/fmt.Errorf-free constructors
}

func LoadWorld(repo string, patterns []string, specDir string) (*World, error) {
	w := &World{repo: repo, funcs: map[string]*ssa.Function{}, pkgByPath: map[string]*types.Package{}, pkgsByName: map[string][]*types.Package{}}
	cfg := &packages.Config{
		Mode:       packages.LoadAllSyntax,
		Dir:        repo,
		BuildFlags: []string{"-tags=verif", "-mod=mod"},
		Env:        append(os.Environ(), "GOFLAGS=-mod=mod", "GOPROXY=off", "GOSUMDB=off", "GOTOOLCHAIN=local"),
	}
	pkgs, err := packages.Load(cfg, patterns...)
	if err != nil {
		return nil, err
	}
	nerr := 0
	packages.Visit(pkgs, nil, func(p *packages.Package) {
		for _, e := range p.Errors {
			if strings.HasPrefix(p.PkgPath, modulePath) {
				fmt.Fprintf(os.Stderr, "load error: %s: %v\n", p.PkgPath, e)
				nerr++
			}
		}
		if p.Types != nil && strings.HasPrefix(p.PkgPath, modulePath) {
			m := map[string]string{}
			for _, f := range p.Syntax {
				for _, imp := range f.Imports {
					path, _ := strconv.Unquote(imp.Path.Value)
					if imp.Name != nil && imp.Name.Name != "_" && imp.Name.Name != "." {
						m[imp.Name.Name] = path
					}
				}
			}
			if w.importAlias == nil {
				w.importAlias = map[string]map[string]string{}
			}
			w.importAlias[p.PkgPath] = m
		}
		if p.Types != nil {
			w.pkgByPath[p.PkgPath] = p.Types
			w.pkgsByName[p.Types.Name()] = append(w.pkgsByName[p.Types.Name()], p.Types)
		}
	})
	if nerr > 0 {
		return nil, fmt.Errorf("%d load errors in %s", nerr, repo)
	}
	w.pkgs = pkgs
	if len(pkgs) > 0 {
		w.fset = pkgs[0].Fset
	}
	prog, _ := ssautil.AllPackages(pkgs, ssa.InstantiateGenerics|ssa.GlobalDebug)
	prog.Build()
	w.prog = prog
	w.allFuncs = ssautil.AllFunctions(prog)
	for fn := range w.allFuncs {
		k := fnKey(fn)
		if old, ok := w.funcs[k]; ok {
			// prefer the non-instantiated / source function
			if old.Synthetic == "" && fn.Synthetic != "" {
				continue
			}
			if len(fn.TypeArgs()) > 0 && len(old.TypeArgs()) == 0 {
				continue
			}
		}
		w.funcs[k] = fn
	}
	w.ct = NewContractTable()
	w.ct.LoadAll(repo, modulePath, specDir)
	w.overflowFuncs = map[string]bool{}
	w.inlineBudget = 60
	return w, nil
}

func (w *World) overflowFor(fr *Frame) bool {
	top := fr.top
	if top == nil {
		top = fr
	}
	return top.contract != nil && top.contract.Safety && w.overflowFuncs[top.contract.Key]
}

func (w *World) pkgTypes(path string) *types.Package { return w.pkgByPath[path] }

func (w *World) lookupObj(pkg, name string) types.Object {
	if p := w.pkgByPath[pkg]; p != nil {
		if o := p.Scope().Lookup(name); o != nil {
			return o
		}
	}
	if o := types.Universe.Lookup(name); o != nil {
		return o
	}
	return nil
}

// lookupPkg resolves a package qualifier used inside a contract of package `from`.
func (w *World) lookupPkg(from, name string) *types.Package {
	if m := w.importAlias[from]; m != nil {
		if path, ok := m[name]; ok {
			if p := w.pkgByPath[path]; p != nil {
				return p
			}
		}
	}
	if p := w.pkgByPath[from]; p != nil {
		// an import without alias whose package name matches; when several match, prefer the one
		// that is not also imported under an alias
		var cands []*types.Package
		for _, imp := range p.Imports() {
			if imp.Name() == name {
				cands = append(cands, imp)
			}
		}
		if len(cands) > 1 {
			aliased := map[string]bool{}
			for _, path := range w.importAlias[from] {
				aliased[path] = true
			}
			for _, c := range cands {
				if !aliased[c.Path()] {
					return c
				}
			}
		}
		if len(cands) > 0 {
			return cands[0]
		}
	}
	if p := w.pkgByPath[from]; p != nil {
		for _, imp := range p.Imports() {
			if imp.Name() == name {
				return imp
			}
		}
	}
	if p, ok := w.pkgByPath[name]; ok {
		return p
	}
	cands := w.pkgsByName[name]
	if len(cands) == 1 {
		return cands[0]
	}
	// prefer heimdall packages, then std
	for _, c := range cands {
		if strings.HasPrefix(c.Path(), modulePath) {
			return c
		}
	}
	for _, c := range cands {
		if !strings.Contains(c.Path(), ".") {
			return c
		}
	}
	if len(cands) > 0 {
		sort.Slice(cands, func(i, j int) bool { return cands[i].Path() < cands[j].Path() })
		return cands[0]
	}
	return nil
}

// resolveType parses a small type-expression language: *T, []T, [N]T, map[K]V, pkg.Name, Name.
func (w *World) resolveType(s, from string) types.Type {
	s = strings.TrimSpace(s)
	switch {
	case s == "":
		return nil
	case strings.HasPrefix(s, "*"):
		if t := w.resolveType(s[1:], from); t != nil {
			return types.NewPointer(t)
		}
		return nil
	case strings.HasPrefix(s, "[]"):
		if t := w.resolveType(s[2:], from); t != nil {
			return types.NewSlice(t)
		}
		return nil
	case strings.HasPrefix(s, "["):
		i := strings.Index(s, "]")
		n, err := strconv.Atoi(s[1:i])
		if err != nil {
			return nil
		}
		if t := w.resolveType(s[i+1:], from); t != nil {
			return types.NewArray(t, int64(n))
		}
		return nil
	case strings.HasPrefix(s, "map["):
		depth := 0
		for i := 3; i < len(s); i++ {
			switch s[i] {
			case '[':
				depth++
			case ']':
				depth--
				if depth == 0 {
					k := w.resolveType(s[4:i], from)
					v := w.resolveType(s[i+1:], from)
					if k == nil || v == nil {
						return nil
					}
					return types.NewMap(k, v)
				}
			}
		}
		return nil
	case s == "any":
		return types.Universe.Lookup("any").Type()
	}
	if i := strings.LastIndex(s, "."); i >= 0 {
		p := w.lookupPkg(from, s[:i])
		if p == nil {
			return nil
		}
		if o := p.Scope().Lookup(s[i+1:]); o != nil {
			if tn, ok := o.(*types.TypeName); ok {
				return tn.Type()
			}
		}
		return nil
	}
	if p := w.pkgByPath[from]; p != nil {
		if o := p.Scope().Lookup(s); o != nil {
			if tn, ok := o.(*types.TypeName); ok {
				return tn.Type()
			}
		}
	}
	if o := types.Universe.Lookup(s); o != nil {
		if tn, ok := o.(*types.TypeName); ok {
			return tn.Type()
		}
	}
	return nil
}

// immutableGlobal: a heimdall package-level variable that is never stored to outside init.
func (w *World) immutableGlobal(name string) bool {
	if !w.mutScanned {
		w.mutScanned = true
		w.mutGlobals = map[string]bool{}
		for fn := range w.allFuncs {
			pkg := fn.Pkg
			if pkg == nil || !strings.HasPrefix(pkg.Pkg.Path(), modulePath) {
				if fn.Origin() == nil || fn.Origin().Pkg == nil || !strings.HasPrefix(fn.Origin().Pkg.Pkg.Path(), modulePath) {
					continue
				}
			}
			if fn.Name() == "init" && fn.Synthetic != "" {
				continue
			}
			for _, b := range fn.Blocks {
				for _, in := range b.Instrs {
					// any use of a global's address other than a direct load counts as mutation
					for _, op := range in.Operands(nil) {
						g, ok := (*op).(*ssa.Global)
						if !ok {
							continue
						}
						if u, isLoad := in.(*ssa.UnOp); isLoad && u.Op == token.MUL {
							continue
						}
						if _, isDbg := in.(*ssa.DebugRef); isDbg {
							continue
						}
						w.mutGlobals[g.Pkg.Pkg.Path()+"."+g.Name()] = true
					}
				}
			}
		}
	}
	return !w.mutGlobals[name]
}

func (w *World) isLogName(name string) bool {
	if name == "mapnext" {
		return true // built-in: iterations of range-over-map loops (key boxed)
	}
	if name == "gostart" {
		return true // built-in: go statements executed by the function under verification (count only)
	}
	for _, c := range w.ct.Funcs {
		if c.Logged == name {
			return true
		}
		for _, l := range c.LogParams {
			if l == name {
				return true
			}
		}
	}
	return false
}

func (w *World) sigOfContract(c *Contract) (*types.Signature, types.Type) {
	if c.Kind == "iface" {
		// (pkg/path.Iface).Method
		k := strings.TrimPrefix(c.Key, "(")
		tn, m, ok := strings.Cut(k, ").")
		if !ok {
			return nil, nil
		}
		t := w.resolveType(tn, c.Pkg)
		if t == nil {
			return nil, nil
		}
		obj, _, _ := types.LookupFieldOrMethod(t, true, nil, m)
		if obj == nil {
			it, ok := t.Underlying().(*types.Interface)
			if !ok {
				return nil, nil
			}
			for i := 0; i < it.NumMethods(); i++ {
				if it.Method(i).Name() == m {
					obj = it.Method(i)
				}
			}
		}
		if f, ok := obj.(*types.Func); ok {
			return f.Type().(*types.Signature), t
		}
		return nil, nil
	}
	if fn := w.funcs[c.Key]; fn != nil {
		var rt types.Type
		if fn.Signature.Recv() != nil {
			rt = fn.Signature.Recv().Type()
		}
		return fn.Signature, rt
	}
	return nil, nil
}

func (w *World) logElemType(log, comp string) types.Type {
	if log == "gostart" {
		return nil
	}
	if log == "mapnext" {
		if comp == "arg0" {
			return types.NewInterfaceType(nil, nil)
		}
		return nil
	}
	for _, c := range w.ct.Funcs {
		for pname, l := range c.LogParams {
			if l != log {
				continue
			}
			fn := w.funcs[c.Key]
			if fn == nil {
				return nil
			}
			for _, p := range fn.Params {
				if p.Name() != pname {
					continue
				}
				sig, ok := p.Type().Underlying().(*types.Signature)
				if !ok {
					return nil
				}
				if strings.HasPrefix(comp, "arg") {
					k, err := strconv.Atoi(strings.TrimPrefix(comp, "arg"))
					if err != nil || k >= sig.Params().Len() {
						return nil
					}
					return sig.Params().At(k).Type()
				}
				if strings.HasPrefix(comp, "ret") {
					k, err := strconv.Atoi(strings.TrimPrefix(comp, "ret"))
					if err != nil || k >= sig.Results().Len() {
						return nil
					}
					return sig.Results().At(k).Type()
				}
			}
			return nil
		}
	}
	for _, c := range w.ct.Funcs {
		if c.Logged != log {
			continue
		}
		sig, recv := w.sigOfContract(c)
		if sig == nil {
			return nil
		}
		if strings.HasPrefix(comp, "arg") {
			k, err := strconv.Atoi(strings.TrimPrefix(comp, "arg"))
			if err != nil {
				return nil
			}
			if recv != nil {
				if k == 0 {
					return recv
				}
				k--
			}
			if k < sig.Params().Len() {
				return sig.Params().At(k).Type()
			}
			return nil
		}
		if strings.HasPrefix(comp, "ret") {
			k, err := strconv.Atoi(strings.TrimPrefix(comp, "ret"))
			if err != nil || k >= sig.Results().Len() {
				return nil
			}
			return sig.Results().At(k).Type()
		}
	}
	return nil
}

func (w *World) ambientGhost(comp string) bool {
	if !strings.HasPrefix(comp, "$") {
		return false
	}
	g, ok := w.ct.Ghosts[strings.TrimPrefix(comp, "$")]
	return ok && g.Ambient
}

// immutableFieldComp: field heap component "F:<type>.<field>" of an in-repo struct type that is
// never stored to outside the construction of a fresh object (a local Alloc of the storing
// function). Such fields keep their value across every call (havoc skips them).
func (w *World) immutableFieldComp(comp string) bool {
	for _, x := range w.ct.ImmutableExt {
		if x == comp {
			w.immutableFieldComp("F:" + modulePath + "/x.y") // run the store scan
			w.mu.Lock()
			r := !w.mutFields[comp]
			w.mu.Unlock()
			return r
		}
	}
	if !strings.HasPrefix(comp, "F:"+modulePath) && !strings.HasPrefix(comp, "C:") && !strings.HasPrefix(comp, "E:"+modulePath) {
		return false
	}
	if strings.HasPrefix(comp, "F:") {
		// exported fields can be written by reflection-based decoders (mapstructure, json, yaml),
		// which the scan below cannot see: only unexported fields qualify
		if i := strings.LastIndex(comp, "."); i >= 0 && i+1 < len(comp) {
			c := comp[i+1]
			if c >= 'A' && c <= 'Z' {
				return false
			}
		}
	}
	w.mu.Lock()
	defer w.mu.Unlock()
	if !w.mutFieldsDone {
		w.mutFieldsDone = true
		w.mutFields = map[string]bool{}
		markAll := func(t types.Type) {
			if u, ok := t.Underlying().(*types.Struct); ok {
				for i := 0; i < u.NumFields(); i++ {
					w.mutFields["F:"+typeKey(t)+"."+u.Field(i).Name()] = true
				}
			}
		}
		var rootIsAlloc func(v ssa.Value) bool
		rootIsAlloc = func(v ssa.Value) bool {
			switch x := v.(type) {
			case *ssa.Alloc:
				return true
			case *ssa.FreeVar:
				// a captured variable of an enclosing function (its own allocation)
				return true
			case *ssa.FieldAddr:
				return rootIsAlloc(x.X)
			case *ssa.IndexAddr:
				return rootIsAlloc(x.X)
			}
			return false
		}
		for fn := range w.allFuncs {
			pkg := fn.Pkg
			if pkg == nil && fn.Origin() != nil {
				pkg = fn.Origin().Pkg
			}
			if pkg == nil && fn.Parent() != nil {
				p := fn.Parent()
				for p.Parent() != nil {
					p = p.Parent()
				}
				pkg = p.Pkg
			}
			if pkg == nil || !strings.HasPrefix(pkg.Pkg.Path(), modulePath) {
				continue
			}
			for _, b := range fn.Blocks {
				for _, in := range b.Instrs {
					st, ok := in.(*ssa.Store)
					if !ok {
						continue
					}
					if rootIsAlloc(st.Addr) {
						continue
					}
					if w.initOnlyStore(fn, st) {
						continue
					}
					switch a := st.Addr.(type) {
					case *ssa.Global:
					case *ssa.IndexAddr:
						// element store into a slice/array that is not under construction
						if _, isMk := a.X.(*ssa.MakeSlice); isMk {
							break
						}
						switch bt := a.X.Type().Underlying().(type) {
						case *types.Slice:
							if os.Getenv("GOVC_DEBUG_MUT") != "" {
								fmt.Fprintf(os.Stderr, "mutable elements %s: store in %s at %s\n", typeKey(bt.Elem()), fn, w.fset.Position(st.Pos()))
							}
							w.mutFields["E:"+typeKey(bt.Elem())] = true
						case *types.Pointer:
							if at, ok := bt.Elem().Underlying().(*types.Array); ok {
								w.mutFields["E:"+typeKey(at.Elem())] = true
							}
						}
					case *ssa.FieldAddr:
						// every struct on the address chain has this field path written
						cur := a
						for {
							pt := cur.X.Type().Underlying().(*types.Pointer).Elem()
							u := pt.Underlying().(*types.Struct)
							w.mutFields["F:"+typeKey(pt)+"."+u.Field(cur.Field).Name()] = true
							w.addWriter("F:"+typeKey(pt)+"."+u.Field(cur.Field).Name(), fn)
							inner, ok := cur.X.(*ssa.FieldAddr)
							if !ok {
								break
							}
							cur = inner
						}
					default:
						if pt, ok := st.Addr.Type().Underlying().(*types.Pointer); ok {
							markAll(pt.Elem())
							if u, ok := pt.Elem().Underlying().(*types.Struct); ok {
								for i := 0; i < u.NumFields(); i++ {
									w.addWriter("F:"+typeKey(pt.Elem())+"."+u.Field(i).Name(), fn)
								}
							}
							// a store through a plain pointer value: the cell heap of that type is mutable
							w.mutFields["C:"+typeKey(pt.Elem())] = true
							if os.Getenv("GOVC_DEBUG_MUT") != "" {
								fmt.Fprintf(os.Stderr, "mutable cell %s: store in %s at %s\n", typeKey(pt.Elem()), fn, w.fset.Position(st.Pos()))
							}
						}
					}
				}
			}
		}
	}
	return !w.mutFields[comp]
}

// initOnlyStore: the store writes a declared init-only field of the function's own receiver, and
// the function is only ever called on a freshly allocated receiver.
func (w *World) initOnlyStore(fn *ssa.Function, st *ssa.Store) bool {
	fields, ok := w.ct.InitOnly[fnKey(fn)]
	if !ok || len(fn.Params) == 0 {
		return false
	}
	fa, ok := st.Addr.(*ssa.FieldAddr)
	if !ok || fa.X != fn.Params[0] {
		return false
	}
	pt := fa.X.Type().Underlying().(*types.Pointer).Elem()
	name := pt.Underlying().(*types.Struct).Field(fa.Field).Name()
	found := false
	for _, f := range fields {
		if f == name {
			found = true
		}
	}
	if !found {
		return false
	}
	return w.onlyCalledOnFresh(fn)
}

func (w *World) onlyCalledOnFresh(fn *ssa.Function) bool {
	if w.freshCallee == nil {
		w.freshCallee = map[*ssa.Function]bool{}
	}
	if v, ok := w.freshCallee[fn]; ok {
		return v
	}
	okAll := true
	n := 0
	for caller := range w.allFuncs {
		for _, b := range caller.Blocks {
			for _, in := range b.Instrs {
				for _, op := range in.Operands(nil) {
					if *op != ssa.Value(fn) {
						continue
					}
					c, isCall := in.(*ssa.Call)
					if !isCall || c.Call.Value != ssa.Value(fn) || len(c.Call.Args) == 0 {
						okAll = false // function value escapes or is deferred/go'ed
						continue
					}
					n++
					if _, isAlloc := c.Call.Args[0].(*ssa.Alloc); !isAlloc {
						okAll = false
					}
				}
			}
		}
	}
	w.freshCallee[fn] = okAll && n > 0
	return okAll && n > 0
}

// implementations returns synthesized contracts "implementation body against interface contract"
// for every in-repo (non-mock) type implementing the interface method of contract c.
func (w *World) implementations(c *Contract) []*Contract {
	sig, it := w.sigOfContract(c)
	if sig == nil || it == nil {
		return nil
	}
	iface, ok := it.Underlying().(*types.Interface)
	if !ok {
		return nil
	}
	_, mname, _ := strings.Cut(strings.TrimPrefix(c.Key, "("), ").")
	var out []*Contract
	seen := map[string]bool{}
	for _, path := range sortedKeys(w.pkgByPath) {
		if !strings.HasPrefix(path, modulePath) || strings.Contains(path, "/mocks") || strings.Contains(path, "testsupport") {
			continue
		}
		p := w.pkgByPath[path]
		for _, name := range p.Scope().Names() {
			tn, ok := p.Scope().Lookup(name).(*types.TypeName)
			if !ok || tn.IsAlias() {
				continue
			}
			named, ok := tn.Type().(*types.Named)
			if !ok || named.TypeParams().Len() > 0 {
				continue
			}
			if _, isIface := named.Underlying().(*types.Interface); isIface {
				continue
			}
			for _, recv := range []types.Type{named, types.NewPointer(named)} {
				if !types.Implements(recv, iface) {
					continue
				}
				sel := w.prog.MethodSets.MethodSet(recv).Lookup(p, mname)
				if sel == nil {
					sel = w.prog.MethodSets.MethodSet(recv).Lookup(nil, mname)
				}
				if sel == nil {
					continue
				}
				fn := w.prog.MethodValue(sel)
				if fn == nil {
					continue
				}
				// follow wrappers (promoted methods / pointer wrappers) to the declared method
				key := fnKey(fn)
				if fn.Synthetic != "" && fn.Blocks == nil {
					if decl, ok := sel.Obj().(*types.Func); ok {
						if df := w.prog.FuncValue(decl); df != nil {
							fn = df
							key = fnKey(df)
						}
					}
				}
				if fn.Blocks == nil || seen[key] || !strings.HasPrefix(fnPkgPath(fn), modulePath) {
					continue
				}
				seen[key] = true
				if _, ok := w.funcs[key]; !ok {
					w.funcs[key] = fn
				}
				nc := *c
				nc.Kind = "func"
				nc.Key = key
				nc.SubtypeOf = c.Key
				nc.LoopInv = map[int][]Clause{}
				nc.Logged = ""
				if own := w.ct.Funcs[key]; own != nil {
					nc.LoopInv = own.LoopInv
					nc.Requires = append(append([]Clause{}, c.Requires...), own.Requires...)
				}
				// parameter names of the interface method, by position
				nc.ParamAlias = map[string]int{}
				for i := 0; i < sig.Params().Len(); i++ {
					if n := sig.Params().At(i).Name(); n != "" && n != "_" {
						nc.ParamAlias[n] = i
					}
				}
				out = append(out, &nc)
				break
			}
		}
	}
	return out
}

// sentinelOrd: a package-level variable of type error that is initialised exactly once, in its
// package initialiser, with errors.New(...) and never stored to again. Such variables are
// distinct non-nil values.
func (w *World) sentinelOrd(name string) (int, bool) {
	w.mu.Lock()
	if w.sentinels == nil {
		w.sentinels = map[string]int{}
		var names []string
		for _, p := range w.prog.AllPackages() {
			init := p.Func("init")
			if init == nil {
				continue
			}
			for _, b := range init.Blocks {
				for _, in := range b.Instrs {
					st, ok := in.(*ssa.Store)
					if !ok {
						continue
					}
					g, ok := st.Addr.(*ssa.Global)
					if !ok {
						continue
					}
					mi, ok := st.Val.(*ssa.MakeInterface)
					var call *ssa.Call
					if ok {
						call, _ = mi.X.(*ssa.Call)
					} else {
						call, _ = st.Val.(*ssa.Call)
					}
					if call == nil {
						continue
					}
					if fn, ok := call.Call.Value.(*ssa.Function); ok && fn.String() == "errors.New" {
						names = append(names, g.Pkg.Pkg.Path()+"."+g.Name())
					}
				}
			}
		}
		sort.Strings(names)
		for i, n := range names {
			w.sentinels[n] = i + 1
		}
	}
	o, ok := w.sentinels[name]
	w.mu.Unlock()
	if !ok || !w.immutableGlobal(name) {
		return 0, false
	}
	return o, true
}

// fieldFuncCandidate: for a callee value that is a load of field f of an in-repo struct T
// (f unexported), returns the single closure function whose closures are the only values ever
// stored into T.f anywhere in the program; nil if unknown or not unique.
func (w *World) fieldFuncCandidate(v ssa.Value) *ssa.Function {
	ld, ok := v.(*ssa.UnOp)
	if !ok || ld.Op != token.MUL {
		return nil
	}
	fa, ok := ld.X.(*ssa.FieldAddr)
	if !ok {
		return nil
	}
	pt, ok := fa.X.Type().Underlying().(*types.Pointer)
	if !ok {
		return nil
	}
	st, ok := pt.Elem().Underlying().(*types.Struct)
	if !ok {
		return nil
	}
	fname := st.Field(fa.Field).Name()
	key := typeKey(pt.Elem()) + "." + fname
	if !strings.HasPrefix(key, modulePath) || (fname[0] >= 'A' && fname[0] <= 'Z') {
		return nil
	}
	w.mu.Lock()
	defer w.mu.Unlock()
	if w.fieldFuncs == nil {
		w.fieldFuncs = map[string]*ssa.Function{}
		w.fieldFuncsBad = map[string]bool{}
		var cands func(v ssa.Value, depth int) ([]*ssa.Function, bool)
		cands = func(v ssa.Value, depth int) ([]*ssa.Function, bool) {
			if depth > 4 {
				return nil, false
			}
			switch x := v.(type) {
			case *ssa.MakeClosure:
				return []*ssa.Function{x.Fn.(*ssa.Function)}, true
			case *ssa.Function:
				return []*ssa.Function{x}, true
			case *ssa.Const:
				if x.Value == nil {
					return nil, true // nil function value
				}
			case *ssa.Call:
				if g, ok := x.Call.Value.(*ssa.Function); ok && g.Blocks != nil {
					var out []*ssa.Function
					for _, b := range g.Blocks {
						for _, in := range b.Instrs {
							if r, ok := in.(*ssa.Return); ok && len(r.Results) == 1 {
								c, ok := cands(r.Results[0], depth+1)
								if !ok {
									return nil, false
								}
								out = append(out, c...)
							}
						}
					}
					return out, true
				}
			case *ssa.Phi:
				var out []*ssa.Function
				for _, e := range x.Edges {
					c, ok := cands(e, depth+1)
					if !ok {
						return nil, false
					}
					out = append(out, c...)
				}
				return out, true
			case *ssa.ChangeType:
				return cands(x.X, depth+1)
			}
			return nil, false
		}
		note := func(k string, v ssa.Value) {
			c, ok := cands(v, 0)
			if !ok {
				w.fieldFuncsBad[k] = true
				return
			}
			for _, f := range c {
				if old, has := w.fieldFuncs[k]; has && old != f {
					w.fieldFuncsBad[k] = true
				}
				w.fieldFuncs[k] = f
			}
		}
		for fn := range w.allFuncs {
			if !strings.HasPrefix(fnPkgPath(fn), modulePath) {
				continue
			}
			for _, b := range fn.Blocks {
				for _, in := range b.Instrs {
					s, ok := in.(*ssa.Store)
					if !ok {
						continue
					}
					if _, isFn := s.Val.Type().Underlying().(*types.Signature); !isFn {
						// whole-struct copies move function values between instances of the same struct
						// type; they introduce no value that was not stored through a field store
						continue
					}
					f2, ok := s.Addr.(*ssa.FieldAddr)
					if !ok {
						continue
					}
					p2 := f2.X.Type().Underlying().(*types.Pointer).Elem()
					note(typeKey(p2)+"."+p2.Underlying().(*types.Struct).Field(f2.Field).Name(), s.Val)
				}
			}
		}
	}
	if w.fieldFuncsBad[key] {
		return nil
	}
	return w.fieldFuncs[key]
}

// mechanismCone: zero-annotation contracts "writeframe" for Execute / WithConfig of every mechanism
// type and for every in-repo function statically reachable from them (static calls, closures, and
// interface calls on interfaces declared under internal/rules, resolved to their in-repo
// implementations). prop is attached to each synthesized contract.
func (w *World) mechanismCone(prop string) []*Contract {
	mechPkgs := []string{"authenticators", "authorizers", "contextualizers", "finalizers", "errorhandlers"}
	excluded := func(path string) bool {
		for _, x := range []string{"/internal/handler", "/internal/cache", "/internal/x/errorchain", "/mocks", "/testsupport", "/internal/accesscontext"} {
			if strings.Contains(path, x) {
				return true
			}
		}
		return false
	}
	var roots []*ssa.Function
	for _, mp := range mechPkgs {
		path := modulePath + "/internal/rules/mechanisms/" + mp
		p := w.pkgByPath[path]
		if p == nil {
			continue
		}
		for _, name := range p.Scope().Names() {
			tn, ok := p.Scope().Lookup(name).(*types.TypeName)
			if !ok || tn.IsAlias() {
				continue
			}
			named, ok := tn.Type().(*types.Named)
			if !ok {
				continue
			}
			if _, isIface := named.Underlying().(*types.Interface); isIface {
				continue
			}
			for _, recv := range []types.Type{named, types.NewPointer(named)} {
				ms := w.prog.MethodSets.MethodSet(recv)
				ex := ms.Lookup(p, "Execute")
				wc := ms.Lookup(p, "WithConfig")
				if ex == nil || wc == nil {
					continue
				}
				for _, sel := range []*types.Selection{ex, wc} {
					if fn := w.prog.MethodValue(sel); fn != nil && fn.Blocks != nil && fn.Synthetic == "" {
						roots = append(roots, fn)
					}
				}
			}
		}
	}
	return w.coneContracts(roots, excluded, prop, func(c *Contract) { c.WriteFrame = true })
}

// providerCone: zero-annotation contracts "writeframe" for every function and closure declared in a
// rule provider package (internal/rules/provider/<kind>) except the constructors (new*/New*), which
// run before anything is shared. The callbacks of a provider run on scheduler, watcher and informer
// goroutines next to each other: a plain write to memory that existed before the call is a candidate
// data race, so each store must go to memory the call allocated itself; state kept between callbacks
// lives in sync types (whose methods are trusted specs). The cone stays inside the provider packages.
func (w *World) providerCone(prop string) []*Contract {
	excluded := func(path string) bool {
		return !strings.Contains(path, "/internal/rules/provider/") || strings.Contains(path, "/mocks")
	}
	var roots []*ssa.Function
	for _, key := range sortedKeys(w.funcs) {
		fn := w.funcs[key]
		if fn == nil || fn.Blocks == nil || fn.Synthetic != "" || excluded(fnPkgPath(fn)) {
			continue
		}
		top := fn
		for top.Parent() != nil {
			top = top.Parent()
		}
		if n := strings.ToLower(top.Name()); strings.HasPrefix(n, "new") || top.Name() == "init" {
			continue
		}
		roots = append(roots, fn)
	}
	return w.coneContracts(roots, excluded, prop, func(c *Contract) { c.WriteFrame = true })
}

// rootsByPattern: in-repo functions whose key contains one of the substrings.
func (w *World) rootsByPattern(pats []string) []*ssa.Function {
	var out []*ssa.Function
	for _, k := range sortedKeys(w.funcs) {
		fn := w.funcs[k]
		if fn.Blocks == nil || !strings.HasPrefix(fnPkgPath(fn), modulePath) {
			continue
		}
		for _, p := range pats {
			if strings.Contains(k, p) {
				out = append(out, fn)
				break
			}
		}
	}
	return out
}

// coneContracts: synthesized contracts for the roots and every in-repo function statically reachable
// from them (static calls, closures, interface calls on interfaces declared under internal/rules
// resolved to their in-repo implementations).
func (w *World) coneContracts(roots []*ssa.Function, excluded func(string) bool, prop string, setup func(*Contract)) []*Contract {
	seen := map[*ssa.Function]bool{}
	var order []*ssa.Function
	var visit func(fn *ssa.Function, depth int)
	ifaceImpls := map[string][]*ssa.Function{}
	implsOf := func(it types.Type, m *types.Func) []*ssa.Function {
		return w.implsOfIfaceEx(it, m, excluded, ifaceImpls)
	}
	visit = func(fn *ssa.Function, depth int) {
		if fn == nil || seen[fn] || fn.Blocks == nil || depth > 12 {
			return
		}
		path := fnPkgPath(fn)
		if !strings.HasPrefix(path, modulePath) || excluded(path) {
			return
		}
		seen[fn] = true
		order = append(order, fn)
		for _, b := range fn.Blocks {
			for _, in := range b.Instrs {
				var cc *ssa.CallCommon
				switch x := in.(type) {
				case *ssa.Call:
					cc = &x.Call
				case *ssa.Defer:
					cc = &x.Call
				case *ssa.Go:
					cc = &x.Call
				case *ssa.MakeClosure:
					cf := x.Fn.(*ssa.Function)
					if m, ok := cf.Object().(*types.Func); ok && w.coneBound && strings.HasPrefix(cf.Synthetic, "bound method wrapper") && len(x.Bindings) == 1 {
						// a method value: the method itself, or - for an interface method - its in-repo implementations
						rt := x.Bindings[0].Type()
						if _, isIface := rt.Underlying().(*types.Interface); isIface {
							for _, impl := range implsOf(rt, m) {
								visit(impl, depth+1)
							}
						} else if f := w.prog.FuncValue(m); f != nil {
							visit(f, depth+1)
						}
					} else {
						visit(cf, depth+1)
					}
				}
				if cc == nil {
					continue
				}
				if cc.IsInvoke() {
					it := cc.Value.Type()
					if n, ok := it.(*types.Named); ok && n.Obj().Pkg() != nil {
						ip := n.Obj().Pkg().Path()
						if (w.coneAllIfaces && strings.HasPrefix(ip, modulePath)) || (strings.HasPrefix(ip, modulePath+"/internal/rules") && !strings.HasSuffix(ip, "/internal/rules/rule")) {
							for _, impl := range implsOf(it, cc.Method) {
								visit(impl, depth+1)
							}
						}
					}
					continue
				}
				if f, ok := cc.Value.(*ssa.Function); ok {
					visit(f, depth+1)
				} else if nt := inModuleNamedFunc(cc.Value.Type()); nt != nil && w.coneAllIfaces {
					cands, _ := w.namedFuncCandidates(nt)
					for _, f := range cands {
						visit(f, depth+1)
					}
				}
				for _, a := range cc.Args {
					if f, ok := a.(*ssa.Function); ok {
						visit(f, depth+1)
					}
				}
			}
		}
	}
	for _, r := range roots {
		visit(r, 0)
	}
	var out []*Contract
	for _, fn := range order {
		key := fnKey(fn)
		// an instantiation of a generic function is verified when it is the one registered under the
		// function's key (a single instantiation in the loaded program, e.g. radixtree.Tree[rule.Route]);
		// further instantiations are covered where they are inlined
		if _, ok := w.funcs[key]; !ok {
			w.funcs[key] = fn
		} else if w.funcs[key] != fn {
			continue
		}
		c := &Contract{Key: key, Kind: "func", Pkg: fnPkgPath(fn), File: "(synthesized: zero-annotation sweep)", Props: []string{prop}, LoopInv: map[int][]Clause{}, InRepo: true}
		if own := w.ct.Funcs[key]; own != nil {
			c.LoopInv = own.LoopInv
			c.Requires = own.Requires
			c.Decreases = own.Decreases
		}
		setup(c)
		out = append(out, c)
	}
	return out
}

// implsOfIfaceEx: the in-repo methods implementing interface method m of it (declared types only;
// packages for which excluded holds are skipped).
func (w *World) implsOfIfaceEx(it types.Type, m *types.Func, excluded func(string) bool, ifaceImpls map[string][]*ssa.Function) []*ssa.Function {
	key := typeKey(it) + "." + m.Name()
	if r, ok := ifaceImpls[key]; ok {
		return r
	}
	var out []*ssa.Function
	iface, ok := it.Underlying().(*types.Interface)
	if ok {
		for _, path := range sortedKeys(w.pkgByPath) {
			if !strings.HasPrefix(path, modulePath) || excluded(path) {
				continue
			}
			p := w.pkgByPath[path]
			for _, name := range p.Scope().Names() {
				tn, ok := p.Scope().Lookup(name).(*types.TypeName)
				if !ok || tn.IsAlias() {
					continue
				}
				named, ok := tn.Type().(*types.Named)
				if !ok || named.TypeParams().Len() > 0 {
					continue
				}
				if _, isIface := named.Underlying().(*types.Interface); isIface {
					continue
				}
				for _, recv := range []types.Type{named, types.NewPointer(named)} {
					if !types.Implements(recv, iface) {
						continue
					}
					if sel := w.prog.MethodSets.MethodSet(recv).Lookup(m.Pkg(), m.Name()); sel != nil {
						if fn := w.prog.MethodValue(sel); fn != nil && fn.Blocks != nil && fn.Synthetic == "" {
							out = append(out, fn)
						}
					}
					break
				}
			}
		}
	}
	ifaceImpls[key] = out
	return out
}

func (w *World) implsOfIface(it types.Type, m *types.Func) []*ssa.Function {
	if w.implCache == nil {
		w.implCache = map[string][]*ssa.Function{}
	}
	return w.implsOfIfaceEx(it, m, func(p string) bool { return strings.Contains(p, "/mocks") || strings.Contains(p, "/testsupport") }, w.implCache)
}

func (w *World) inRepoPkg(path string) bool { return strings.HasPrefix(path, modulePath) }

// reaches: can a call of from end up calling to (static in-repo call graph incl. closures made
// along the way)? Used to recognise recursion for termination obligations.
func (w *World) reaches(from, to *ssa.Function) bool {
	if from == to {
		return true
	}
	if w.reachCache == nil {
		w.reachCache = map[[2]*ssa.Function]bool{}
	}
	k := [2]*ssa.Function{from, to}
	if r, ok := w.reachCache[k]; ok {
		return r
	}
	seen := map[*ssa.Function]bool{}
	var visit func(fn *ssa.Function) bool
	visit = func(fn *ssa.Function) bool {
		if fn == to {
			return true
		}
		if fn == nil || seen[fn] || fn.Blocks == nil || !strings.HasPrefix(fnPkgPath(fn), modulePath) {
			return false
		}
		seen[fn] = true
		for _, b := range fn.Blocks {
			for _, in := range b.Instrs {
				switch x := in.(type) {
				case ssa.CallInstruction:
					if f := x.Common().StaticCallee(); f != nil && visit(f) {
						return true
					}
				case *ssa.MakeClosure:
					if visit(x.Fn.(*ssa.Function)) {
						return true
					}
				}
			}
		}
		return false
	}
	r := visit(from)
	w.reachCache[k] = r
	return r
}

// lineText returns the text of a source line (cached per file).
func (w *World) lineText(file string, line int) string {
	if w.lines == nil {
		w.lines = map[string][]string{}
	}
	ls, ok := w.lines[file]
	if !ok {
		b, _ := os.ReadFile(file)
		ls = strings.Split(string(b), "\n")
		w.lines[file] = ls
	}
	if line < 1 || line > len(ls) {
		return ""
	}
	return ls[line-1]
}

// originSig: the generic signature of the function registered under key, if it is generic.
func (w *World) originSig(key string) *types.Signature {
	if w.osigs == nil {
		w.osigs = map[string]*types.Signature{}
		for fn := range w.allFuncs {
			if o := fn.Origin(); o != nil && o.Signature != nil {
				w.osigs[fnKey(fn)] = o.Signature
			} else if fn.TypeParams().Len() > 0 {
				w.osigs[fnKey(fn)] = fn.Signature
			}
		}
	}
	return w.osigs[key]
}

func (w *World) addWriter(comp string, fn *ssa.Function) {
	if w.fieldWriters == nil {
		w.fieldWriters = map[string]map[*ssa.Function]bool{}
	}
	if w.fieldWriters[comp] == nil {
		w.fieldWriters[comp] = map[*ssa.Function]bool{}
	}
	w.fieldWriters[comp][fn] = true
}

// chaReach: every function reachable from fn in the class-hierarchy call graph of the whole
// program (static calls; interface calls to every method of every type implementing the
// interface; calls of function values to every address-taken function of that signature).
func (w *World) chaReach(fn *ssa.Function) map[*ssa.Function]bool {
	w.mu.Lock()
	defer w.mu.Unlock()
	if w.chaG == nil {
		w.chaG = cha.CallGraph(w.prog)
		w.chaReachC = map[*ssa.Function]map[*ssa.Function]bool{}
	}
	if r, ok := w.chaReachC[fn]; ok {
		return r
	}
	seen := map[*ssa.Function]bool{}
	var stack []*callgraph.Node
	if n := w.chaG.Nodes[fn]; n != nil {
		stack = append(stack, n)
		seen[fn] = true
	}
	for len(stack) > 0 {
		n := stack[len(stack)-1]
		stack = stack[:len(stack)-1]
		for _, ed := range n.Out {
			if c := ed.Callee; c != nil && c.Func != nil && !seen[c.Func] {
				seen[c.Func] = true
				stack = append(stack, c)
			}
		}
		// closures created by the function may be called later by anyone it hands them to
		if n.Func != nil {
			for _, af := range n.Func.AnonFuncs {
				if !seen[af] {
					seen[af] = true
					if an := w.chaG.Nodes[af]; an != nil {
						stack = append(stack, an)
					}
				}
			}
		}
	}
	w.chaReachC[fn] = seen
	return seen
}

// keptAcrossCall: an unexported field of an in-repo struct keeps its value across a call of fn when
// none of the functions that store to it (whole-program scan) is reachable from fn. Code outside
// the repository cannot name the field; reflection/unsafe writes are outside the model (assumption).
func (w *World) keptAcrossCall(comp string, fn *ssa.Function) bool {
	if fn == nil || !strings.HasPrefix(comp, "F:"+modulePath) {
		return false
	}
	if i := strings.LastIndex(comp, "."); i >= 0 && i+1 < len(comp) {
		if c := comp[i+1]; c >= 'A' && c <= 'Z' {
			return false
		}
	}
	w.immutableFieldComp(comp) // make sure the store scan has run
	writers := w.fieldWriters[comp]
	if len(writers) == 0 {
		return true
	}
	reach := w.chaReach(fn)
	for wf := range writers {
		if reach[wf] {
			return false
		}
		// a closure's stores happen when the closure runs: reachable if the closure is
		for p := wf.Parent(); p != nil; p = p.Parent() {
			_ = p
		}
	}
	return true
}
