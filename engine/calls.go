package main

import (
	"fmt"
	"go/constant"
	"go/token"
	"go/types"
	"hash/fnv"
	"os"
	"sort"
	"strings"

	"golang.org/x/tools/go/ssa"
)

const modulePath = "github.com/dadrus/heimdall"

const maxInlineDepth = 8

func (e *Enc) call(fr *Frame, c *ssa.CallCommon, site ssa.Instruction, st *State, rb Term) (Val, *State, Term) {
	var args []Val
	for _, a := range c.Args {
		args = append(args, e.value(fr, a))
	}
	return e.callWith(fr, c, site, st, rb, args, nil)
}

func sitePos(site ssa.Instruction) token.Pos {
	if site == nil {
		return token.NoPos
	}
	return site.Pos()
}

// callWith handles a call with already evaluated arguments (used for defers too).
func (e *Enc) callWith(fr *Frame, c *ssa.CallCommon, site ssa.Instruction, st *State, rb Term, args []Val, fnv *Val) (Val, *State, Term) {
	e.checkMapRange(fr, c, site, rb)
	prevCall := e.curCall
	e.curCall = c
	defer func() { e.curCall = prevCall }()
	resT := c.Signature().Results()
	var resType types.Type = resT
	if resT.Len() == 1 {
		resType = resT.At(0).Type()
	}
	if c.IsInvoke() {
		recv := e.value(fr, c.Value)
		if fnv != nil {
			recv = *fnv
		}
		if fr.top != nil && fr.top.contract != nil && fr.top.contract.NoNilChecks && fnv == nil && e.signalResult(c.Value) {
			e.safety(fr, "safety.nilsignal", rb, "(not (= (if_typ "+recv.T+") 0))", sitePos(site))
		}
		e.safety(fr, "safety.nil", rb, "(not (= (if_typ "+recv.T+") 0))", sitePos(site))
		key := ifaceMethodKey(c.Value.Type(), c.Method)
		all := append([]Val{recv}, args...)
		if ct := e.w.ct.Funcs[key]; ct != nil {
			return e.applyContract(fr, ct, key, c.Method.Type().(*types.Signature), all, true, st, rb, site, resType)
		}
		e.countCall(fr, key, all, st, rb, site)
		return e.defaultCall(fr, key, all, st, rb, resType, true)
	}
	if b, ok := c.Value.(*ssa.Builtin); ok {
		return e.builtin(fr, b, c, args, st, rb, resType, site)
	}
	var callee Val
	if fnv != nil {
		callee = *fnv
	} else {
		callee = e.value(fr, c.Value)
	}
	if callee.Clo == nil {
		// a function value loaded from an unexported field of an in-repo struct: if every store to
		// that field (whole program) puts a closure of one and the same function there, the call is
		// a call of that function with captured variables cloFV(callee)
		if fn := e.w.fieldFuncCandidate(c.Value); fn != nil {
			if ct := e.w.ct.Funcs[fnKey(fn)]; ct != nil && !ct.Inline {
				var bind []Val
				for k, fv := range fn.FreeVars {
					f := e.sc.DeclFun(fmt.Sprintf("cloFV_%s_%d", fn.String(), k), []string{"Int"}, e.sortOf(fv.Type()))
					bind = append(bind, Val{T: app(f, callee.T), Typ: fv.Type()})
				}
				for k := range fn.FreeVars {
					if et, ok := effectivelyFinal(fn, k, nil); ok {
						if a := e.addrOfPointer(bind[k]); a != nil {
							g := e.sc.DeclFun(fmt.Sprintf("cloFVinit_%s_%d", fn.String(), k), []string{"Int"}, e.sortOf(et))
							e.sc.Assert(implies(rb, eq(app(g, callee.T), e.Load(st, a))))
							e.trusted["captured variable "+fn.FreeVars[k].Name()+" of "+funcShort(fn)+" keeps its creation-time value (never assigned inside the closure; enclosing function assigns it once - syntactic check at creation sites)"] = true
						}
					}
				}
				e.trusted["closed world for function-valued field: only closures of "+funcShort(fn)+" are ever stored there (whole-program scan)"] = true
				return e.applyContractFV(fr, ct, fnKey(fn), fn.Signature, args, false, st, rb, site, resType, fn, bind)
			}
		}
		// a call through a function-typed parameter of the function under verification, recorded in
		// a ghost log when the contract asks for it
		if par, ok := c.Value.(*ssa.Parameter); ok && fr == fr.top && fr.contract != nil && fr.contract.LogParams[par.Name()] != "" {
			log := fr.contract.LogParams[par.Name()]
			st = e.Leak(st, args...)
			st = e.Havoc(st, e.modAllHeap())
			res := e.freshVal("res_"+par.Name(), resType)
			e.assumeAllocated(res, st)
			e.assumeNotPrivate(res, st)
			st = e.logCall(log, st, args, res, c.Signature(), false)
			return res, st, rb
		}
		// dynamic call of an unknown function value
		e.havocked["dynamic call in "+funcShort(fr.fn)] = true
		st = e.Leak(st, args...)
		st = e.Leak(st, callee)
		dynRes := e.freshVal("dyn", resType)
		st = e.Havoc(st, e.modAllHeap())
		e.errKindAssumeDyn(c, dynRes, resType, st, rb)
		return dynRes, st, rb
	}
	fn := callee.Clo.Fn
	key := fnKey(fn)
	e.globalStateWrite(fr, key, c, rb, site)
	e.inPlaceStdWrite(fr, key, args, st, rb, site)
	if key == "fmt.Sprintf" {
		if r, ok := e.sprintfConcat(fr, c, args); ok {
			return r, st, rb
		}
	}
	e.terminationOb(fr, fn, args, st, rb, site)
	if ct := e.w.ct.Funcs[key]; ct != nil && !ct.Inline {
		return e.applyContract(fr, ct, key, fn.Signature, args, false, st, rb, site, resType)
	}
	e.countCall(fr, key, args, st, rb, site)
	if r, st2, ok := e.higherOrderStd(fr, key, c, args, st, resType); ok {
		return r, st2, rb
	}
	// synthetic wrappers (bound methods, thunks) and in-repo functions: inline
	if e.canInline(fr, fn) {
		return e.inline(fr, fn, args, callee.Clo.Bind, st, rb)
	}
	// (a class-hierarchy based "no writer of this field is reachable from the callee" rule was tried
	// here - keptAcrossCall - and is switched off: CHA over the whole program reaches almost every
	// method from almost every function once the standard library is in the cone)
	return e.defaultCall(fr, key, args, st, rb, resType, false)
}

func ifaceMethodKey(t types.Type, m *types.Func) string {
	// key: (pkg/path.Iface).Method
	if n, ok := t.(*types.Named); ok {
		return "(" + typeKey(n.Origin()) + ")." + m.Name()
	}
	if a, ok := t.(*types.Alias); ok {
		return ifaceMethodKey(types.Unalias(a), m)
	}
	// anonymous interface: use the method's own package-qualified name
	return "(interface)." + m.Name()
}

func (e *Enc) canInline(fr *Frame, fn *ssa.Function) bool {
	if fn.Blocks == nil {
		return false
	}
	if fr.depth >= maxInlineDepth {
		return false
	}
	for f := fr; f != nil; f = f.parent {
		if f.fn == fn {
			return false // recursion
		}
	}
	if ct := e.w.ct.Funcs[fnKey(fn)]; ct != nil && ct.Inline {
		return true
	}
	pkgPath := fnPkgPath(fn)
	if pkgPath == "" {
		// wrappers / bound method closures: inline when small
		return fn.Synthetic != "" && len(fn.Blocks) <= 4
	}
	if !strings.HasPrefix(pkgPath, modulePath) {
		return false
	}
	n := 0
	for _, b := range fn.Blocks {
		n += len(b.Instrs)
	}
	// closures and the small generic helpers of internal/x are always inlined; other in-repo
	// functions only when small (bigger ones need a contract, otherwise they are havocked)
	if fn.Parent() != nil || strings.HasPrefix(pkgPath, modulePath+"/internal/x") {
		return n <= 400
	}
	return n <= e.w.inlineBudget && fr.depth < 4
}

func (e *Enc) inline(fr *Frame, fn *ssa.Function, args []Val, bind []Val, st *State, rb Term) (Val, *State, Term) {
	e.inlined[funcShort(fn)] = true
	nf := &Frame{fn: fn, args: args, bind: bind, depth: fr.depth + 1, parent: fr, top: fr.top}
	if ct := e.w.ct.Funcs[fnKey(fn)]; ct != nil && ct.Inline {
		nf.contract = ct
		ct.Used = true
	}
	rets, out, reach := e.execFunc(nf, st, rb)
	fr.top.panicReach = append(fr.top.panicReach, nf.panicReach...)
	if reach == "false" {
		// callee never returns (always panics)
		return e.freshVal("noret", resultType(fn.Signature)), st, "false"
	}
	// reach after the call: paths that returned
	nrb := e.sc.Define("after_"+fn.Name(), "Bool", and(rb, reach))
	switch len(rets) {
	case 0:
		return Val{Typ: types.NewTuple()}, out, nrb
	case 1:
		return rets[0], out, nrb
	}
	return Val{Typ: fn.Signature.Results(), Tuple: rets}, out, nrb
}

func resultType(sig *types.Signature) types.Type {
	if sig.Results().Len() == 1 {
		return sig.Results().At(0).Type()
	}
	return sig.Results()
}

func pureValueType(t types.Type, depth int) bool {
	if depth > 6 {
		return false
	}
	switch u := t.Underlying().(type) {
	case *types.Basic:
		return u.Kind() != types.UnsafePointer
	case *types.Struct:
		for i := 0; i < u.NumFields(); i++ {
			if !pureValueType(u.Field(i).Type(), depth+1) {
				return false
			}
		}
		return true
	case *types.Array:
		return pureValueType(u.Elem(), depth+1)
	}
	return false
}

// defaultCall: no contract, not inlinable. Result unconstrained. Heap effect:
//   - effect-free list entry: none
//   - all arguments are pure values (no pointers/slices/maps/interfaces/funcs): none
//     (an external function cannot reach heimdall's heap without a reference to it)
//   - otherwise: every heap component is havocked.
func (e *Enc) defaultCall(fr *Frame, key string, args []Val, st *State, rb Term, resType types.Type, invoke bool) (Val, *State, Term) {
	res := e.freshVal("res_"+shortKey(key), resType)
	for _, p := range e.w.ct.EffectFree {
		if strings.HasPrefix(key, p) || strings.HasPrefix(strings.TrimPrefix(strings.TrimPrefix(key, "("), "*"), p) {
			e.effFree[key] = true
			e.errKindAssume(key, invoke, e.curCall, args, res, resType, st, rb)
			e.privSentinelAssume(fr, key, invoke, e.curCall, args, res, resType, st, rb)
			return res, st, rb
		}
	}
	allPure := true
	for _, a := range args {
		if a.Typ == nil || !pureValueType(a.Typ, 0) {
			allPure = false
		}
	}
	inRepo := strings.Contains(key, modulePath)
	if allPure && !inRepo {
		e.trusted["pure-by-arguments: "+key] = true
		e.errKindAssume(key, invoke, e.curCall, args, res, resType, st, rb)
		e.privSentinelAssume(fr, key, invoke, e.curCall, args, res, resType, st, rb)
		return res, st, rb
	}
	e.havocked[key] = true
	st = e.Leak(st, args...)
	mod := e.modAllHeapFor(inRepo)
	if callee := e.curCallee; callee != nil {
		base := mod
		mod = func(c string) bool {
			if !base(c) {
				return false
			}
			if e.w.keptAcrossCall(c, callee) {
				e.trusted["unexported field "+compShort(c)+" kept across the call of "+funcShort(callee)+": no function storing to it is reachable from the callee (class-hierarchy call graph, whole program)"] = true
				return false
			}
			return true
		}
	}
	st = e.Havoc(st, mod)
	e.assumeNotPrivate(res, st)
	e.errKindAssume(key, invoke, e.curCall, args, res, resType, st, rb)
	e.privSentinelAssume(fr, key, invoke, e.curCall, args, res, resType, st, rb)
	return res, st, rb
}

func (e *Enc) modAllHeapFor(inRepo bool) func(string) bool {
	return func(c string) bool {
		if strings.HasPrefix(c, "L:") {
			return false
		}
		if strings.HasPrefix(c, "G:") {
			return inRepo && !e.w.immutableGlobal(strings.TrimPrefix(c, "G:"))
		}
		if strings.HasPrefix(c, "$") && c != "$alloc" {
			return e.w.ambientGhost(c) // other ghost state is only changed by contracts that say so
		}
		if (strings.HasPrefix(c, "F:") || ((strings.HasPrefix(c, "C:") || strings.HasPrefix(c, "E:")) && inRepo)) && e.w.immutableFieldComp(c) {
			e.immut[c] = true
			return false
		}
		return true
	}
}

func shortKey(k string) string {
	if i := strings.LastIndex(k, "/"); i >= 0 {
		k = k[i+1:]
	}
	return sanitize(k)
}

// applyContract: assert requires, havoc modifies, assume ensures.
func (e *Enc) applyContract(fr *Frame, ct *Contract, key string, sig *types.Signature, args []Val, invoke bool, st *State, rb Term, site ssa.Instruction, resType types.Type) (Val, *State, Term) {
	return e.applyContractFV(fr, ct, key, sig, args, invoke, st, rb, site, resType, nil, nil)
}

func (e *Enc) applyContractFV(fr *Frame, ct *Contract, key string, sig *types.Signature, args []Val, invoke bool, st *State, rb Term, site ssa.Instruction, resType types.Type, cloFn *ssa.Function, bind []Val) (Val, *State, Term) {
	ct.Used = true
	if ct.Trusted {
		e.trusted["spec: "+key] = true
	}
	short := shortKey(key)
	fr.top.callN["call@"+short]++
	n := fr.top.callN["call@"+short]
	env := e.contractEnv(ct, sig, args, invoke)
	if cloFn != nil {
		for k, fv := range cloFn.FreeVars {
			if k < len(bind) {
				env.vars[fv.Name()] = bind[k]
			}
		}
	}
	e.callAsserts(fr, short, n, args, st, rb, site)
	for k, rq := range ct.Requires {
		f, watch := e.evalBoolWatch(env, rq.Expr, st, st, rq)
		o := e.ob(fr, "pre", fmt.Sprintf("pre@%s#%d.%d", short, n, k), rb, f, rq.Src, sitePos(site))
		o.Watch = append(append(e.paramWatch(fr.top), watch...), e.contractWatch(fr, st, fr.top.entry)...)
	}
	// havoc
	post := st
	if !ct.Pure {
		mod := e.modFromContract(ct)
		post = e.Havoc(e.Leak(st, args...), mod)
	}
	res := e.freshVal("res_"+short, resType)
	if ct.FreshResult && res.Tuple == nil {
		// the result is a fresh allocation made on behalf of the caller
		ref := res.T
		if e.sortOf(resType) == "Slice" {
			ref = "(sl_ref " + res.T + ")"
		}
		al := e.Get(st, "$alloc")
		e.sc.Assert(implies(rb, and(not(eq(ref, "0")), not(app("select", al, ref)))))
		i := len(e.allocs)
		e.allocs = append(e.allocs, allocInfo{ref: ref, typ: resType})
		e.allocIdx[ref] = i
		e.comps.Register(e.privComp(i), "Bool")
		post = e.Set(post, e.privComp(i), "true")
		post = e.Set(post, "$alloc", app("store", e.Get(post, "$alloc"), ref, "true"))
	}
	e.assumeAllocated(res, post)
	if !ct.Pure {
		e.assumeNotPrivate(res, post)
	}
	env.setResults(res, sig)
	// call log
	if ct.Logged != "" {
		post = e.logCallG(ct.Logged, post, args, res, sig, invoke, e.w.originSig(key))
	}
	for _, en := range ct.Ensures {
		f := e.evalBoolEnv(env, en.Expr, post, st, en)
		if e.evalFailed {
			if en.Trusted {
				// a trusted spec that does not evaluate is a broken spec file, not a property violation
				e.w.contractErrors = append(e.w.contractErrors, e.evalErrs[len(e.evalErrs)-1])
			}
			continue
		}
		e.sc.Assert(implies(rb, f))
	}
	e.errKindAssume(key, invoke, e.curCall, args, res, resType, post, rb)
	e.privSentinelAssume(fr, key, invoke, e.curCall, args, res, resType, post, rb)
	return res, post, rb
}

// logsOf: ghost logs a contract's ensures talk about (the callee may append to them).
func (e *Enc) logsOf(ct *Contract) []string {
	if ct.logs != nil {
		return ct.logs
	}
	set := map[string]bool{}
	var walk func(x CExpr)
	walk = func(x CExpr) {
		switch n := x.(type) {
		case CSel:
			if id, ok := n.X.(CIdent); ok && e.w.isLogName(id.Name) {
				set[id.Name] = true
			}
			walk(n.X)
		case CUnary:
			walk(n.X)
		case CBinary:
			walk(n.L)
			walk(n.R)
		case CIndex:
			walk(n.X)
			walk(n.I)
		case CSlice:
			walk(n.X)
		case CCall:
			for _, a := range n.Args {
				walk(a)
			}
		case CQuant:
			walk(n.Body)
		}
	}
	for _, en := range ct.Ensures {
		walk(en.Expr)
	}
	ct.logs = append([]string{}, sortedKeys(set)...)
	if ct.logs == nil {
		ct.logs = []string{}
	}
	return ct.logs
}

func (e *Enc) modFromContract(ct *Contract) func(string) bool {
	base := e.modFromContract0(ct)
	logs := e.logsOf(ct)
	if len(logs) == 0 {
		return base
	}
	return func(c string) bool {
		if base(c) {
			return true
		}
		for _, l := range logs {
			if strings.HasPrefix(c, "$"+l+".") {
				return true
			}
		}
		return false
	}
}

func (e *Enc) modFromContract0(ct *Contract) func(string) bool {
	if !ct.ModSet {
		// no modifies clause: nothing is known about the frame (frame obligations are only
		// generated for functions that declare one), so callers havoc everything
		return e.modAllHeapFor(ct.InRepo)
	}
	pats := ct.Modifies
	return func(c string) bool {
		if c == "$alloc" || e.w.ambientGhost(c) {
			return true
		}
		for _, p := range pats {
			if matchComp(p, c) {
				return true
			}
		}
		return false
	}
}

// matchComp matches a modifies pattern against a component name.
//
//	"*"            everything (except locals)
//	"ghost x"/"$x" ghost variable
//	"T.f"          field heap of struct type whose key ends in T
//	"T.*"          all fields of T
//	"elems(T)"     slice backing stores with element type ending in T
//	"map(K,V)"     maps
//	"cell(T)"
func matchComp(p, c string) bool {
	p = strings.TrimSpace(p)
	switch {
	case p == "*":
		return !strings.HasPrefix(c, "L:") && (!strings.HasPrefix(c, "$") || c == "$alloc")
	case strings.HasPrefix(p, "ghost "):
		return c == "$"+strings.TrimSpace(strings.TrimPrefix(p, "ghost "))
	case strings.HasPrefix(p, "$"):
		return c == p
	case strings.HasPrefix(p, "elems("):
		t := strings.TrimSuffix(strings.TrimPrefix(p, "elems("), ")")
		return strings.HasPrefix(c, "E:") && (t == "*" || strings.HasSuffix(c, t))
	case strings.HasPrefix(p, "cell("):
		t := strings.TrimSuffix(strings.TrimPrefix(p, "cell("), ")")
		return strings.HasPrefix(c, "C:") && (t == "*" || strings.HasSuffix(c, t))
	case strings.HasPrefix(p, "map("):
		t := strings.TrimSuffix(strings.TrimPrefix(p, "map("), ")")
		return (strings.HasPrefix(c, "MD:") || strings.HasPrefix(c, "MV:")) && (t == "*" || strings.HasSuffix(c, strings.ReplaceAll(t, ",", "|")))
	case strings.HasPrefix(p, "global("):
		t := strings.TrimSuffix(strings.TrimPrefix(p, "global("), ")")
		return strings.HasPrefix(c, "G:") && strings.HasSuffix(c, t)
	}
	if strings.HasPrefix(c, "F:") {
		ty, f, ok := cutLast(stripBrackets(strings.TrimPrefix(c, "F:")), ".")
		pt, pf, ok2 := cutLast(p, ".")
		if ok && ok2 && (pf == "*" || pf == f) && (ty == pt || strings.HasSuffix(ty, "."+pt) || strings.HasSuffix(ty, "/"+pt)) {
			return true
		}
	}
	return false
}

func cutLast(s, sep string) (string, string, bool) {
	i := strings.LastIndex(s, sep)
	if i < 0 {
		return s, "", false
	}
	return s[:i], s[i+len(sep):], true
}

// logCall appends a call record to the ghost log `name`: components $name.n, $name.argK, $name.retK
func (e *Enc) logCall(name string, st *State, args []Val, res Val, sig *types.Signature, invoke bool) *State {
	return e.logCallG(name, st, args, res, sig, invoke, nil)
}

// logCallG: osig is the generic (origin) signature when the callee is an instantiation of a generic
// function; arguments and results whose declared type is a type parameter are recorded boxed as
// interface values, so that all instantiations share one log.
func (e *Enc) logCallG(name string, st *State, args []Val, res Val, sig *types.Signature, invoke bool, osig *types.Signature) *State {
	nC := "$" + name + ".n"
	e.comps.Register(nC, "Int")
	n := e.Get(st, nC)
	isTP := func(t types.Type) bool { _, ok := t.(*types.TypeParam); return ok }
	off := 0
	if osig != nil && osig.Recv() != nil && len(args) == osig.Params().Len()+1 {
		off = 1
	}
	for i, a := range args {
		if osig != nil && i-off >= 0 && i-off < osig.Params().Len() && isTP(osig.Params().At(i-off).Type()) && e.sortOf(a.Typ) != "Iface" {
			a = e.makeIface(a, a.Typ)
		}
		c := fmt.Sprintf("$%s.arg%d", name, i)
		e.comps.Register(c, "(Array Int "+e.sortOf(a.Typ)+")")
		st = e.Set(st, c, app("store", e.Get(st, c), n, a.T))
	}
	rs := []Val{res}
	if res.Tuple != nil {
		rs = res.Tuple
	}
	if sig.Results().Len() == 0 {
		rs = nil
	}
	for i, r := range rs {
		if osig != nil && i < osig.Results().Len() && isTP(osig.Results().At(i).Type()) && e.sortOf(r.Typ) != "Iface" {
			r = e.makeIface(r, r.Typ)
		}
		c := fmt.Sprintf("$%s.ret%d", name, i)
		e.comps.Register(c, "(Array Int "+e.sortOf(r.Typ)+")")
		st = e.Set(st, c, app("store", e.Get(st, c), n, r.T))
	}
	st = e.Set(st, nC, "(+ "+n+" 1)")
	e.logs[name] = true
	return st
}

// ---------------------------------------------------------------------------
// builtins

func (e *Enc) builtin(fr *Frame, b *ssa.Builtin, c *ssa.CallCommon, args []Val, st *State, rb Term, resType types.Type, site ssa.Instruction) (Val, *State, Term) {
	if fr == fr.top && (b.Name() == "append" || b.Name() == "copy" || b.Name() == "delete") {
		// cut-point assertions and call-site counts on the builtins that change data
		e.countCall(fr, "builtin."+b.Name(), args, st, rb, site)
	}
	switch b.Name() {
	case "len":
		return Val{T: e.lenOf(args[0], st), Typ: types.Typ[types.Int]}, st, rb
	case "cap":
		// capacity is not modelled: cap >= len
		r := e.freshVal("cap", types.Typ[types.Int])
		e.sc.Assert("(>= " + r.T + " " + e.lenOf(args[0], st) + ")")
		return r, st, rb
	case "min", "max":
		acc := args[0].T
		isStr := e.sortOf(args[0].Typ) == "String"
		for _, a := range args[1:] {
			cmp := "(<= " + acc + " " + a.T + ")"
			if isStr {
				cmp = "(str.<= " + acc + " " + a.T + ")"
			}
			if b.Name() == "min" {
				acc = ite(cmp, acc, a.T)
			} else {
				acc = ite(cmp, a.T, acc)
			}
		}
		return Val{T: acc, Typ: resType}, st, rb
	case "append":
		s := args[0]
		stp, ok := s.Typ.Underlying().(*types.Slice)
		if !ok {
			stp = resType.Underlying().(*types.Slice)
		}
		comp := e.elemComp(stp.Elem())
		var r Term
		e.pendingAllocComps = []string{comp}
		e.pendingAllocType = resType
		r, st = e.allocRef(st, "append", rb)
		h := e.Get(st, comp)
		oldArr := app("select", h, "(sl_ref "+s.T+")")
		oldLen := "(sl_len " + s.T + ")"
		off := "(sl_off " + s.T + ")"
		if len(args) < 2 {
			return s, st, rb
		}
		v := args[1]
		// variadic: second arg is a slice (or string for []byte)
		if vs, isStr := v.Typ.Underlying().(*types.Basic); isStr && vs.Info()&types.IsString != 0 {
			e.unsupported(fr, "append([]byte, string...)")
			return e.freshVal("append", resType), st, rb
		}
		st = e.Leak(st, v)
		if len(c.Args) > 1 {
			// elements of a varargs backing array are stored into the new backing store
			if sl, ok := c.Args[1].(*ssa.Slice); ok {
				if al, ok := sl.X.(*ssa.Alloc); ok {
					if refs := al.Referrers(); refs != nil {
						for _, r := range *refs {
							if ia, ok := r.(*ssa.IndexAddr); ok {
								if irefs := ia.Referrers(); irefs != nil {
									for _, rr := range *irefs {
										if sto, ok := rr.(*ssa.Store); ok {
											st = e.Leak(st, e.value(fr, sto.Val))
										}
									}
								}
							}
						}
					}
				}
			}
		}
		vlen := "(sl_len " + v.T + ")"
		// result contents: copy of old, then the appended elements.
		// Fast path: appended slice of statically known small length (from a varargs array)
		newArr := e.sc.Const("apparr", "(Array Int "+e.sortOf(stp.Elem())+")")
		res := Val{T: e.sc.Define("appres", "Slice", app("mk_slice", r, "0", "(+ "+oldLen+" "+vlen+")")), Typ: resType}
		varr := app("select", h, "(sl_ref "+v.T+")")
		if n, ok := constLen(v.T); ok && n <= 8 {
			acc := oldArr
			// shift-free: new array indexed from off like the old one would need lambdas; instead
			// describe newArr pointwise
			_ = acc
			e.sc.Assert(fmt.Sprintf("(forall ((i Int)) (=> (and (<= 0 i) (< i %s)) (= (select %s i) (select %s (+ %s i)))))", oldLen, newArr, oldArr, off))
			for i := 0; i < n; i++ {
				e.sc.Assert(eq(app("select", newArr, fmt.Sprintf("(+ %s %d)", oldLen, i)), app("select", varr, fmt.Sprintf("(+ (sl_off %s) %d)", v.T, i))))
			}
		} else {
			e.sc.Assert(fmt.Sprintf("(forall ((i Int)) (=> (and (<= 0 i) (< i %s)) (= (select %s i) (select %s (+ %s i)))))", oldLen, newArr, oldArr, off))
			e.sc.Assert(fmt.Sprintf("(forall ((i Int)) (=> (and (<= 0 i) (< i %s)) (= (select %s (+ %s i)) (select %s (+ (sl_off %s) i)))))", vlen, newArr, oldLen, varr, v.T))
		}
		st = e.Set(st, comp, app("store", h, r, newArr))
		return res, st, rb
	case "copy":
		e.unsupported(fr, "copy builtin (destination havocked)")
		if _, ok := args[0].Typ.Underlying().(*types.Slice); ok {
			e.writeFrame(fr, "copy into a slice", "(sl_ref "+args[0].T+")", nil, st, and(rb, "(> (sl_len "+args[0].T+") 0)"), sitePos(site))
		}
		if stp, ok := args[0].Typ.Underlying().(*types.Slice); ok {
			comp := e.elemComp(stp.Elem())
			st = e.Havoc(st, func(c string) bool { return c == comp })
		}
		return e.freshVal("copy", types.Typ[types.Int]), st, rb
	case "delete":
		m := args[0]
		mt := m.Typ.Underlying().(*types.Map)
		d, _ := e.mapComps(mt)
		dd := e.Get(st, d)
		e.checkMapFrame(fr, m, st, rb, sitePos(site))
		// delete on nil map is a no-op; dom(nil) stays empty
		nd := app("store", dd, m.T, app("store", app("select", dd, m.T), e.coerce(args[1], mt.Key()), "false"))
		st = e.Set(st, d, ite("(= "+m.T+" 0)", dd, nd))
		return Val{Typ: types.NewTuple()}, st, rb
	case "panic":
		if e.checkSafe {
			e.ob(fr, "safety.panic", e.nextName(fr, "safety.panic"), rb, "false", "explicit panic unreachable", sitePos(site))
		}
		return Val{Typ: types.NewTuple()}, st, "false"
	case "recover":
		// value of the panic being recovered: unconstrained unless the frame knows it
		if fr.recovered != "" {
			return Val{T: fr.recovered, Typ: resType}, st, rb
		}
		if fr == fr.top {
			// the function under verification calls recover itself: it is a deferred function, verified
			// for both ways it can be entered (normal return of the deferring function: nil; panic: the
			// panic value, which is anything)
			return e.freshVal("recovered", resType), st, rb
		}
		return Val{T: "nil_iface", Typ: resType}, st, rb
	case "print", "println":
		return Val{Typ: types.NewTuple()}, st, rb
	case "close":
		e.unsupported(fr, "close(chan)")
		return Val{Typ: types.NewTuple()}, st, rb
	case "clear":
		e.unsupported(fr, "clear")
		return Val{Typ: types.NewTuple()}, e.Havoc(st, e.modAllHeap()), rb
	case "ssa:wrapnilchk":
		return args[0], st, rb
	}
	e.unsupported(fr, "builtin "+b.Name())
	return e.freshVal("builtin", resType), st, rb
}

// constLen recognises slices built from a varargs array: (mk_slice r 0 N) definitions are named,
// so look through Define names is not possible; handled by caller through term shape only.
func constLen(t Term) (int, bool) {
	var r string
	var lo, n int
	if _, err := fmt.Sscanf(t, "(mk_slice %s %d (- %d %d))", &r, &lo, &n, &lo); err == nil {
		return n - lo, true
	}
	return 0, false
}

func (e *Enc) lenOf(v Val, st *State) Term {
	switch u := v.Typ.Underlying().(type) {
	case *types.Slice:
		return "(sl_len " + v.T + ")"
	case *types.Basic:
		return "(str.len " + v.T + ")"
	case *types.Map:
		d, _ := e.mapComps(u)
		ks := e.sortOf(u.Key())
		f := e.sc.DeclFun("card_"+sanitize(ks), []string{"(Array " + ks + " Bool)"}, "Int")
		t := app(f, app("select", e.Get(st, d), v.T))
		e.sc.Assert("(>= " + t + " 0)")
		e.sc.Assert(fmt.Sprintf("(= (%s ((as const (Array %s Bool)) false)) 0)", f, ks))
		return t
	case *types.Array:
		return fmt.Sprint(u.Len())
	case *types.Pointer:
		if at, ok := u.Elem().Underlying().(*types.Array); ok {
			return fmt.Sprint(at.Len())
		}
	case *types.Chan:
		r := e.sc.Const("chanlen", "Int")
		e.sc.Assert("(>= " + r + " 0)")
		return r
	}
	return "0"
}

// ---------------------------------------------------------------------------
// loops: which components may change in a loop body

// freshDerived: the slice / pointer value certainly denotes memory allocated by the executing
// function itself (make, new/&T{}, append - which the model always lets return a new backing store -
// or phis/reslices of such values, nil included).
func freshDerived(v ssa.Value, seen map[ssa.Value]bool) bool {
	if seen[v] {
		return true
	}
	seen[v] = true
	switch x := v.(type) {
	case *ssa.MakeSlice, *ssa.Alloc, *ssa.MakeMap:
		return true
	case *ssa.Const:
		return x.IsNil()
	case *ssa.Slice:
		return freshDerived(x.X, seen)
	case *ssa.Phi:
		for _, ed := range x.Edges {
			if !freshDerived(ed, seen) {
				return false
			}
		}
		return true
	case *ssa.Call:
		if b, ok := x.Call.Value.(*ssa.Builtin); ok && b.Name() == "append" {
			return true
		}
	}
	return false
}

func (e *Enc) loopModSet(fr *Frame, body map[*ssa.BasicBlock]bool) func(string) bool {
	set := map[string]bool{}
	nonFresh := map[string]bool{} // components with a store whose target is not known to be fresh
	dirtySet := map[string]bool{} // components callee contracts say they modify
	e.loopFreshOnly = nil
	all := false
	allRepo := false
	var pats, logs []string
	seen := map[*ssa.Function]bool{}
	var scanFn func(fn *ssa.Function, depth int)
	var scanInstr func(in ssa.Instruction, depth int)
	scanCall := func(c *ssa.CallCommon, depth int) {
		if c.IsInvoke() {
			key := ifaceMethodKey(c.Value.Type(), c.Method)
			if ct := e.w.ct.Funcs[key]; ct != nil {
				before := len(pats)
				e.addContractMods(ct, dirtySet, &all, &allRepo, &pats, &logs)
				_ = before
				return
			}
			all = true
			return
		}
		switch v := c.Value.(type) {
		case *ssa.Builtin:
			switch v.Name() {
			case "append":
				// append writes into a backing store that the model always allocates anew
				if st, ok := c.Args[0].Type().Underlying().(*types.Slice); ok {
					set[e.elemComp(st.Elem())] = true
					set["$alloc"] = true
				} else {
					all = true
				}
			case "copy", "delete", "clear":
				all = true // conservative (E/M components)
			}
			return
		case *ssa.Function:
			if ct := e.w.ct.Funcs[fnKey(v)]; ct != nil && !ct.Inline {
				e.addContractMods(ct, dirtySet, &all, &allRepo, &pats, &logs)
				return
			}
			if v.Blocks != nil && strings.HasPrefix(fnPkgPath(v), modulePath) {
				scanFn(v, depth+1)
				return
			}
			// external
			key := fnKey(v)
			switch key {
			case "slices.ContainsFunc", "slices.IndexFunc", "slices.DeleteFunc", "slices.SortFunc", "slices.SortStableFunc":
				// effect = effect of the function argument (see higherOrderStd)
				if len(c.Args) == 2 {
					if mc, ok := c.Args[1].(*ssa.MakeClosure); ok {
						scanFn(mc.Fn.(*ssa.Function), depth+1)
						if key != "slices.ContainsFunc" && key != "slices.IndexFunc" {
							if sl, ok := c.Args[0].Type().Underlying().(*types.Slice); ok {
								dirtySet[e.elemComp(sl.Elem())] = true
							}
						}
						return
					}
					if f2, ok := c.Args[1].(*ssa.Function); ok {
						scanFn(f2, depth+1)
						return
					}
				}
			}
			for _, p := range e.w.ct.EffectFree {
				if strings.HasPrefix(key, p) || strings.HasPrefix(strings.TrimPrefix(strings.TrimPrefix(key, "("), "*"), p) {
					return
				}
			}
			pure := true
			for _, a := range c.Args {
				if !pureValueType(a.Type(), 0) {
					pure = false
				}
			}
			if !pure {
				all = true
			}
			return
		case *ssa.MakeClosure:
			scanFn(v.Fn.(*ssa.Function), depth+1)
			return
		case *ssa.Parameter:
			// a call through a function-typed parameter of the (inlined) function whose loop is
			// analysed: if the caller passed a known closure, that closure is what runs
			if depth == 0 {
				for i, p := range fr.fn.Params {
					if p == v && i < len(fr.args) && fr.args[i].Clo != nil {
						scanFn(fr.args[i].Clo.Fn, depth+1)
						return
					}
				}
			}
		}
		all = true
		allRepo = true
	}
	scanInstr = func(in ssa.Instruction, depth int) {
		switch x := in.(type) {
		case *ssa.Store:
			// component of the address
			switch a := x.Addr.(type) {
			case *ssa.FieldAddr:
				root := a
				for {
					if inner, ok := root.X.(*ssa.FieldAddr); ok {
						root = inner
						continue
					}
					break
				}
				if al, ok := root.X.(*ssa.Alloc); ok && depth == 0 {
					if name, ok := fr.locals[al]; ok {
						set[name] = true
						return
					}
				}
				pt := root.X.Type().Underlying().(*types.Pointer)
				set[e.fieldComp(pt.Elem(), root.Field)] = true
				if !freshDerived(root.X, map[ssa.Value]bool{}) {
					nonFresh[e.fieldComp(pt.Elem(), root.Field)] = true
				}
			case *ssa.IndexAddr:
				switch bt := a.X.Type().Underlying().(type) {
				case *types.Slice:
					set[e.elemComp(bt.Elem())] = true
					if !freshDerived(a.X, map[ssa.Value]bool{}) {
						nonFresh[e.elemComp(bt.Elem())] = true
					}
				case *types.Pointer:
					if at, ok := bt.Elem().Underlying().(*types.Array); ok {
						set[e.elemComp(at.Elem())] = true
						if !freshDerived(a.X, map[ssa.Value]bool{}) {
							nonFresh[e.elemComp(at.Elem())] = true
						}
					}
				}
			case *ssa.Alloc:
				if name, ok := fr.locals[a]; ok && depth == 0 {
					set[name] = true
				} else {
					t := a.Type().(*types.Pointer).Elem()
					if isStruct(t) {
						u := t.Underlying().(*types.Struct)
						for i := 0; i < u.NumFields(); i++ {
							set[e.fieldComp(t, i)] = true
						}
					} else {
						set[e.cellComp(t)] = true
					}
				}
			case *ssa.Global:
				set["G:"+a.Pkg.Pkg.Path()+"."+a.Name()] = true
			case *ssa.FreeVar:
				// captured cell: may be a local of an outer frame
				for _, n := range fr.locals {
					set[n] = true
				}
				for f := fr.parent; f != nil; f = f.parent {
					for _, n := range f.locals {
						set[n] = true
					}
				}
				t := a.Type().(*types.Pointer).Elem()
				if !isStruct(t) {
					set[e.cellComp(t)] = true
				} else {
					all = true
				}
			default:
				pt, ok := x.Addr.Type().Underlying().(*types.Pointer)
				if !ok {
					all = true
					return
				}
				t := pt.Elem()
				if isStruct(t) {
					u := t.Underlying().(*types.Struct)
					for i := 0; i < u.NumFields(); i++ {
						set[e.fieldComp(t, i)] = true
					}
				} else {
					set[e.cellComp(t)] = true
				}
			}
		case *ssa.MapUpdate:
			d, v := e.mapComps(x.Map.Type().Underlying().(*types.Map))
			set[d], set[v] = true, true
		case *ssa.Alloc, *ssa.MakeMap, *ssa.MakeSlice, *ssa.MakeChan:
			set["$alloc"] = true
			if a, ok := x.(*ssa.Alloc); ok {
				t := a.Type().(*types.Pointer).Elem()
				if at, isArr := t.Underlying().(*types.Array); isArr {
					set[e.elemComp(at.Elem())] = true
				} else if isStruct(t) {
					u := t.Underlying().(*types.Struct)
					for i := 0; i < u.NumFields(); i++ {
						set[e.fieldComp(t, i)] = true
					}
				} else {
					set[e.cellComp(t)] = true
				}
			}
			if mm, ok := x.(*ssa.MakeMap); ok {
				d, v := e.mapComps(mm.Type().Underlying().(*types.Map))
				set[d], set[v] = true, true
			}
			if ms, ok := x.(*ssa.MakeSlice); ok {
				set[e.elemComp(ms.Type().Underlying().(*types.Slice).Elem())] = true
			}
		case *ssa.Call:
			scanCall(&x.Call, depth)
		case *ssa.Defer:
			scanCall(&x.Call, depth)
		case *ssa.Next:
			if fr.top != nil && fr.top.contract != nil && fr.top.contract.UsesMapNext && depth == 0 {
				logs = append(logs, "mapnext")
			}
		case *ssa.Go, *ssa.Send, *ssa.Select:
			all = true
			allRepo = true
		}
	}
	scanFn = func(fn *ssa.Function, depth int) {
		if seen[fn] || depth > maxInlineDepth+2 {
			if !seen[fn] {
				all = true
			}
			return
		}
		seen[fn] = true
		for _, b := range fn.Blocks {
			for _, in := range b.Instrs {
				scanInstr(in, depth)
			}
		}
	}
	otherStore := map[string]bool{} // components touched by anything but the fresh-tracked instructions
	realSet := set
	inner := scanInstr
	scanInstr = func(in ssa.Instruction, depth int) {
		tracked, leaf := false, true
		switch x := in.(type) {
		case *ssa.Store:
			switch x.Addr.(type) {
			case *ssa.FieldAddr, *ssa.IndexAddr:
				tracked = true
			case *ssa.Alloc:
				// a cell allocated by the executing function (escaping local / captured variable)
				tracked = true
			}
		case *ssa.Alloc, *ssa.MakeSlice, *ssa.MakeMap:
			tracked = true
		case *ssa.Call:
			if bi, ok := x.Call.Value.(*ssa.Builtin); ok && bi.Name() == "append" {
				tracked = true
			} else {
				leaf = false // callees are scanned instruction by instruction; contract effects go to dirtySet
			}
		case *ssa.Defer:
			leaf = false
		}
		if !leaf {
			inner(in, depth)
			return
		}
		saved := set
		set = map[string]bool{}
		inner(in, depth)
		for c := range set {
			realSet[c] = true
			if !tracked {
				otherStore[c] = true
			}
		}
		set = saved
	}
	for b := range body {
		for _, in := range b.Instrs {
			scanInstr(in, 0)
		}
	}
	for c := range dirtySet {
		realSet[c] = true
		otherStore[c] = true
	}
	set = realSet
	// locals of this frame allocated before the loop but written in it through captured closures
	if all {
		for _, n := range fr.locals {
			_ = n
		}
	}
	// components only written through fresh memory (and not by any callee): the cells that existed at
	// function entry keep their contents across the loop
	if !all {
		for c := range set {
			inPats := false
			for _, p := range pats {
				if matchComp(p, c) {
					inPats = true
				}
			}
			if (strings.HasPrefix(c, "E:") || strings.HasPrefix(c, "F:") || strings.HasPrefix(c, "C:")) && !nonFresh[c] && !otherStore[c] && !inPats {
				e.loopFreshOnly = append(e.loopFreshOnly, c)
			}
		}
		sort.Strings(e.loopFreshOnly)
	}
	if os.Getenv("GOVC_DEBUG_LOOP") != "" {
		fmt.Fprintf(os.Stderr, "loopModSet %s: all=%v pats=%v set=%v nonFresh=%v other=%v fresh=%v\n", fr.fn.Name(), all, pats, sortedKeys(realSet), sortedKeys(nonFresh), sortedKeys(otherStore), e.loopFreshOnly)
	}
	base := e.modAllHeapFor(allRepo)
	return func(c string) bool {
		if set[c] {
			return true
		}
		for _, p := range pats {
			if matchComp(p, c) {
				return true
			}
		}
		for _, l := range logs {
			if strings.HasPrefix(c, "$"+l+".") {
				return true
			}
		}
		if e.w.ambientGhost(c) {
			return true
		}
		if strings.HasPrefix(c, "$") && c != "$alloc" {
			return false
		}
		if all {
			return base(c)
		}
		return false
	}
}

func (e *Enc) addContractMods(ct *Contract, set map[string]bool, all, allRepo *bool, pats, logs *[]string) {
	if ct.Logged != "" {
		*logs = append(*logs, ct.Logged)
	}
	if ct.FreshResult {
		set["$alloc"] = true
	}
	if ct.Pure {
		return
	}
	set["$alloc"] = true
	for _, l := range e.logsOf(ct) {
		*logs = append(*logs, l)
	}
	if ct.Logged != "" {
		// log components are registered on first use; mark by prefix via closure below
		for c := range e.comps.sorts {
			if strings.HasPrefix(c, "$"+ct.Logged+".") {
				set[c] = true
			}
		}
		set["$"+ct.Logged+".n"] = true
		*logs = append(*logs, ct.Logged)
	}
	if !ct.ModSet {
		*all = true
		*allRepo = *allRepo || ct.InRepo
		return
	}
	for _, p := range ct.Modifies {
		if p == "*" {
			*all = true
			continue
		}
		for c := range e.comps.sorts {
			if matchComp(p, c) {
				set[c] = true
			}
		}
		*pats = append(*pats, p)
	}
}

// checkMapRange: obligation that a call named in the host contract's `nomaprange` clause is not
// reachable inside a loop ranging over a map.
func (e *Enc) checkMapRange(fr *Frame, c *ssa.CallCommon, site ssa.Instruction, rb Term) {
	top := fr.top
	if top == nil || top.contract == nil || len(top.contract.NoMapRange) == 0 || site == nil {
		return
	}
	name := ""
	if c.IsInvoke() {
		name = ifaceMethodKey(c.Value.Type(), c.Method)
	} else if f, ok := c.Value.(*ssa.Function); ok {
		name = fnKey(f)
	} else {
		return
	}
	hit := false
	for _, p := range top.contract.NoMapRange {
		if strings.Contains(name, p) {
			hit = true
		}
	}
	if !hit || !inMapRangeLoop(site.Block()) {
		return
	}
	e.ob(fr, "maprange", e.nextName(fr, "maprange@"+shortKey(name)), rb, "false",
		"call of "+shortKey(name)+" inside a loop ranging over a map (iteration order is random)", site.Pos())
}

// inMapRangeLoop: the block belongs to a natural loop whose header (or body) advances a map iterator.
func inMapRangeLoop(b *ssa.BasicBlock) bool {
	fn := b.Parent()
	for _, h := range fn.Blocks {
		isHeader := false
		for _, p := range h.Preds {
			if isBackEdge(p, h) {
				isHeader = true
			}
		}
		if !isHeader {
			continue
		}
		body := loopBody(h)
		if !body[b] {
			continue
		}
		for blk := range body {
			for _, in := range blk.Instrs {
				if nx, ok := in.(*ssa.Next); ok && !nx.IsString {
					if rg, ok := nx.Iter.(*ssa.Range); ok {
						if _, isMap := rg.X.Type().Underlying().(*types.Map); isMap {
							return true
						}
					}
				}
			}
		}
	}
	return false
}

// terminationOb: a call that can lead back into the function under verification needs a measure
// (contract clause "decreases") that is non-negative and strictly smaller than at entry.
func (e *Enc) terminationOb(fr *Frame, fn *ssa.Function, args []Val, st *State, rb Term, site ssa.Instruction) {
	top := fr.top
	if top == nil || top.contract == nil || !top.contract.Safety || !e.checkSafe {
		return
	}
	if fn.Blocks == nil || !e.w.reaches(fn, top.fn) {
		return
	}
	tdec := top.contract.Decreases
	var cct *Contract
	if fn == top.fn {
		cct = top.contract
	} else {
		cct = e.w.ct.Funcs[fnKey(fn)]
	}
	if tdec == nil || cct == nil || cct.Decreases == nil {
		e.ob(fr, "safety.termination", e.nextName(fr, "safety.termination"), rb, "false",
			"recursive call of "+funcShort(fn)+" needs a decreases measure", sitePos(site))
		return
	}
	envC := e.contractEnv(cct, fn.Signature, args, false)
	mC := e.eval(envC, cct.Decreases.Expr, st, st)
	mT := e.eval(e.hostEnv(top), tdec.Expr, top.entry, top.entry)
	e.ob(fr, "safety.termination", e.nextName(fr, "safety.termination"), rb,
		and("(<= 0 "+mC.T+")", "(< "+mC.T+" "+mT.T+")"), "decreases "+cct.Decreases.Src, sitePos(site))
}

// callAsserts: cut-point assertions (`assert at call <callee>#n: e`) of the contract under
// verification for the n-th call of a callee, evaluated in the state right before the call.
func (e *Enc) callAsserts(fr *Frame, short string, n int, args []Val, st *State, rb Term, site ssa.Instruction) {
	if fr.contract == nil {
		return
	}
	for k, ca := range fr.contract.Asserts {
		if ca.Kind != "call" || !strings.HasSuffix(short, sanitize(ca.Callee)) {
			continue
		}
		// #n counts the call sites of the callee in source order (not in the order the blocks happen
		// to be visited); an anchor, when present, identifies the site by its source line
		if !e.matchCut(fr.fn, ca, site) {
			continue
		}
		n = ca.N
		{
			henv := e.hostEnv(fr)
			for i, a := range args {
				henv.vars[fmt.Sprintf("callarg%d", i)] = a
			}
			f, watch := e.evalBoolWatch(henv, ca.Clause.Expr, st, fr.entry, ca.Clause)
			fr.top.callN[fmt.Sprintf("assertseen:%d", k)]++
			name := fmt.Sprintf("assert@%s#%d", ca.Callee, n)
			if c := fr.top.callN["assertname:"+name]; c > 0 {
				name = fmt.Sprintf("%s.%d", name, c+1)
			}
			fr.top.callN["assertname:"+fmt.Sprintf("assert@%s#%d", ca.Callee, n)]++
			o := e.ob(fr, "assert", name, rb, f, ca.Clause.Src, sitePos(site))
			o.Watch = append(append(e.paramWatch(fr.top), watch...), e.contractWatch(fr, st, fr.top.entry)...)
		}
	}
}

// countCall numbers the calls of a callee without contract (for cut-point assertions).
func (e *Enc) countCall(fr *Frame, key string, args []Val, st *State, rb Term, site ssa.Instruction) {
	if fr.contract == nil || len(fr.contract.Asserts) == 0 {
		return
	}
	short := shortKey(key)
	fr.top.callN["call@"+short]++
	e.callAsserts(fr, short, fr.top.callN["call@"+short], args, st, rb, site)
}

// sprintfConcat: fmt.Sprintf with a constant format made of literal text and %s verbs only, applied
// to string-typed arguments, is string concatenation.
func (e *Enc) sprintfConcat(fr *Frame, c *ssa.CallCommon, args []Val) (Val, bool) {
	if len(c.Args) != 2 {
		return Val{}, false
	}
	fc, ok := c.Args[0].(*ssa.Const)
	if !ok || fc.Value == nil || fc.Value.Kind() != constant.String {
		return Val{}, false
	}
	format := constant.StringVal(fc.Value)
	// the variadic slice: a Slice of an Alloc'd array whose elements are MakeInterface(string)
	sl, ok := c.Args[1].(*ssa.Slice)
	if !ok {
		return Val{}, false
	}
	al, ok := sl.X.(*ssa.Alloc)
	if !ok {
		return Val{}, false
	}
	at, ok := al.Type().(*types.Pointer).Elem().Underlying().(*types.Array)
	if !ok {
		return Val{}, false
	}
	elems := make([]ssa.Value, at.Len())
	for _, ref := range *al.Referrers() {
		ia, ok := ref.(*ssa.IndexAddr)
		if !ok {
			continue
		}
		ic, ok := ia.Index.(*ssa.Const)
		if !ok {
			return Val{}, false
		}
		for _, r2 := range *ia.Referrers() {
			if st, ok := r2.(*ssa.Store); ok {
				if mi, ok := st.Val.(*ssa.MakeInterface); ok {
					if i := int(ic.Int64()); i >= 0 && i < len(elems) {
						elems[i] = mi.X
					}
				}
			}
		}
	}
	var parts []string
	lit := ""
	argi := 0
	for i := 0; i < len(format); i++ {
		if format[i] != '%' {
			lit += string(format[i])
			continue
		}
		if i+1 >= len(format) {
			return Val{}, false
		}
		switch format[i+1] {
		case '%':
			lit += "%"
		case 's':
			if argi >= len(elems) || elems[argi] == nil {
				return Val{}, false
			}
			b, ok := elems[argi].Type().Underlying().(*types.Basic)
			if !ok || b.Info()&types.IsString == 0 {
				return Val{}, false
			}
			if lit != "" {
				parts = append(parts, strLit(lit))
				lit = ""
			}
			parts = append(parts, e.value(fr, elems[argi]).T)
			argi++
		default:
			return Val{}, false
		}
		i++
	}
	if argi != len(elems) {
		return Val{}, false
	}
	if lit != "" {
		parts = append(parts, strLit(lit))
	}
	switch len(parts) {
	case 0:
		return Val{T: "\"\"", Typ: types.Typ[types.String]}, true
	case 1:
		return Val{T: parts[0], Typ: types.Typ[types.String]}, true
	}
	return Val{T: "(str.++ " + strings.Join(parts, " ") + ")", Typ: types.Typ[types.String]}, true
}

// siteOrdinal: position (1-based) of the call instruction among the call sites of fn whose callee
// name ends in the given pattern, ordered by source position. 0 if the site is not one of them.
func (e *Enc) siteOrdinal(fn *ssa.Function, site ssa.Instruction, pattern string) int {
	if site == nil || fn == nil {
		return 0
	}
	type rec struct {
		pos token.Pos
		in  ssa.Instruction
	}
	var sites []rec
	pat := sanitize(pattern)
	for _, b := range fn.Blocks {
		for _, in := range b.Instrs {
			ci, ok := in.(ssa.CallInstruction)
			if !ok {
				continue
			}
			cc := ci.Common()
			key := ""
			if cc.IsInvoke() {
				key = ifaceMethodKey(cc.Value.Type(), cc.Method)
			} else if f := cc.StaticCallee(); f != nil {
				key = fnKey(f)
			} else {
				continue
			}
			if strings.HasSuffix(shortKey(key), pat) {
				sites = append(sites, rec{in.Pos(), in})
			}
		}
	}
	sort.SliceStable(sites, func(i, j int) bool { return sites[i].pos < sites[j].pos })
	for i, r := range sites {
		if r.in == site {
			return i + 1
		}
	}
	return 0
}

// higherOrderStd: the generic helpers of package slices that take a function argument touch the heap
// only through that function (plus, for the in-place ones, the elements of their slice argument).
// When the function argument is a closure known at the call site, the call havocs exactly what the
// closure's body can modify (computed like a loop's modification set); the result is unconstrained.
func (e *Enc) higherOrderStd(fr *Frame, key string, c *ssa.CallCommon, args []Val, st *State, resType types.Type) (Val, *State, bool) {
	inPlace := false
	switch key {
	case "slices.ContainsFunc", "slices.IndexFunc":
	case "slices.DeleteFunc", "slices.SortFunc", "slices.SortStableFunc":
		inPlace = true
	default:
		return Val{}, nil, false
	}
	if len(args) != 2 || args[1].Clo == nil || args[1].Clo.Fn.Blocks == nil {
		return Val{}, nil, false
	}
	cf := args[1].Clo.Fn
	body := map[*ssa.BasicBlock]bool{}
	for _, b := range cf.Blocks {
		body[b] = true
	}
	pf := &Frame{fn: cf, args: nil, bind: args[1].Clo.Bind, depth: fr.depth + 1, parent: fr, top: fr.top, locals: map[*ssa.Alloc]string{}}
	savedFresh := e.loopFreshOnly
	mod := e.loopModSet(pf, body)
	e.loopFreshOnly = savedFresh
	elem := ""
	if inPlace {
		if sl, ok := c.Args[0].Type().Underlying().(*types.Slice); ok {
			elem = e.elemComp(sl.Elem())
		}
	}
	st = e.Leak(st, args[0])
	st = e.Havoc(st, func(comp string) bool { return comp == elem || mod(comp) })
	e.trusted["slices."+strings.TrimPrefix(key, "slices.")+": touches the heap only through its function argument (and, in place, the elements of its slice argument)"] = true
	return e.freshVal("res_"+shortKey(key), resType), st, true
}

// globalStateWrite: under a `writeframe` contract (C17 sweep) mechanism code must not write
// package-level state either; the stores the sweep sees are field/element stores, so the mutators of
// sync.Map (and sync/atomic values) applied to a package-level variable get an obligation of their
// own - a memo shared by all rules and requests is exactly what the property excludes.
func (e *Enc) globalStateWrite(fr *Frame, key string, c *ssa.CallCommon, rb Term, site ssa.Instruction) {
	top := fr.top
	if top == nil || top.contract == nil || !top.contract.WriteFrame || len(c.Args) == 0 {
		return
	}
	switch key {
	case "(*sync.Map).Store", "(*sync.Map).LoadOrStore", "(*sync.Map).Swap", "(*sync.Map).CompareAndSwap",
		"(*sync.Map).Delete", "(*sync.Map).LoadAndDelete", "(*sync.Map).CompareAndDelete", "(*sync.Map).Clear":
	default:
		if !strings.HasPrefix(key, "(*sync/atomic.") || !(strings.HasSuffix(key, ").Store") || strings.HasSuffix(key, ").Swap") || strings.HasSuffix(key, ").Add") || strings.HasSuffix(key, ").CompareAndSwap")) {
			return
		}
	}
	var root ssa.Value = c.Args[0]
	for {
		switch x := root.(type) {
		case *ssa.FieldAddr:
			root = x.X
			continue
		case *ssa.IndexAddr:
			root = x.X
			continue
		}
		break
	}
	if g, ok := root.(*ssa.Global); ok {
		e.ob(fr, "wframe", e.nextName(fr, "wframe"), rb, "false", "write to package-level state "+g.Name()+" through "+shortKey(key), sitePos(site))
	}
}

// inPlaceStdWrite: under a `writeframe` contract the standard helpers that rearrange or overwrite
// their first argument in place (sorting, reversing, compacting, deleting, copying into a map) are
// writes like a store instruction: the slice or map handed to them must be memory the call allocated
// itself or context-owned. An empty slice has nothing to write.
func (e *Enc) inPlaceStdWrite(fr *Frame, key string, args []Val, st *State, rb Term, site ssa.Instruction) {
	top := fr.top
	if top == nil || top.contract == nil || !top.contract.WriteFrame || len(args) == 0 {
		return
	}
	switch key {
	case "slices.Sort", "slices.SortFunc", "slices.SortStableFunc", "slices.Reverse", "slices.DeleteFunc", "slices.Delete",
		"slices.Compact", "slices.CompactFunc", "sort.Strings", "sort.Ints", "sort.Float64s", "maps.Copy", "maps.DeleteFunc":
	default:
		return
	}
	v := args[0]
	switch v.Typ.Underlying().(type) {
	case *types.Slice:
		e.writeFrame(fr, "in-place change of a slice by "+shortKey(key), "(sl_ref "+v.T+")", nil, st, and(rb, "(> (sl_len "+v.T+") 0)"), sitePos(site))
	case *types.Map:
		e.writeFrame(fr, "in-place change of a map by "+shortKey(key), v.T, v.Typ, st, rb, sitePos(site))
	}
}

// ---- cut-point sites -------------------------------------------------------------------------

// cutSites: the candidate sites of a cut point in fn, in source order.
func (e *Enc) cutSites(fn *ssa.Function, kind, pattern string) []ssa.Instruction {
	var sites []ssa.Instruction
	pat := sanitize(pattern)
	fieldName := func(f *ssa.FieldAddr) string {
		pt, ok := f.X.Type().Underlying().(*types.Pointer)
		if !ok {
			return ""
		}
		u, ok := pt.Elem().Underlying().(*types.Struct)
		if !ok {
			return ""
		}
		return u.Field(f.Field).Name()
	}
	for _, b := range fn.Blocks {
		for _, in := range b.Instrs {
			switch kind {
			case "call":
				ci, ok := in.(ssa.CallInstruction)
				if !ok {
					continue
				}
				cc := ci.Common()
				key := ""
				if cc.IsInvoke() {
					key = ifaceMethodKey(cc.Value.Type(), cc.Method)
				} else if f := cc.StaticCallee(); f != nil {
					key = fnKey(f)
				} else if b, ok := cc.Value.(*ssa.Builtin); ok {
					key = "builtin." + b.Name()
				} else {
					continue
				}
				if strings.HasSuffix(shortKey(key), pat) {
					sites = append(sites, in)
				}
			case "return":
				// only return statements of the source (the synthetic return of a recover block has no position)
				if _, ok := in.(*ssa.Return); ok && in.Pos().IsValid() {
					sites = append(sites, in)
				}
			case "store":
				if st, ok := in.(*ssa.Store); ok {
					if fa, ok := st.Addr.(*ssa.FieldAddr); ok && fieldName(fa) == pattern {
						sites = append(sites, in)
					}
				}
			}
		}
	}
	sort.SliceStable(sites, func(i, j int) bool { return sites[i].Pos() < sites[j].Pos() })
	return sites
}

// siteAnchors: for each site the hash of its (whitespace-normalised) source line plus the occurrence
// number among the sites with the same line text.
func (e *Enc) siteAnchors(sites []ssa.Instruction) []string {
	out := make([]string, len(sites))
	seen := map[string]int{}
	for i, s := range sites {
		if !s.Pos().IsValid() {
			continue
		}
		p := e.w.fset.Position(s.Pos())
		h := fnv.New32a()
		h.Write([]byte(strings.Join(strings.Fields(e.w.lineText(p.Filename, p.Line)), " ")))
		k := fmt.Sprintf("%08x", h.Sum32())
		seen[k]++
		out[i] = fmt.Sprintf("%s.%d", k, seen[k])
	}
	return out
}

// matchCut: is `site` the site the cut point talks about? With an anchor: the site whose source line
// has that hash (robust against insertions and deletions elsewhere in the function); if no site has
// it (the line itself was edited), or without an anchor: the N-th site in source order.
func (e *Enc) matchCut(fn *ssa.Function, ca CutAssert, site ssa.Instruction) bool {
	sites := e.cutSites(fn, ca.Kind, ca.Callee)
	if ca.Anchor != "" {
		for i, a := range e.siteAnchors(sites) {
			if a == ca.Anchor {
				return sites[i] == site
			}
		}
	}
	return ca.N >= 1 && ca.N <= len(sites) && sites[ca.N-1] == site
}
