package main

// SMT-LIB script construction: sorts for Go types, named definitions (sharing),
// guarded assumptions, obligations.

import (
	"fmt"
	"go/types"
	"os"
	"sort"
	"strings"
)

type Term = string

// Script is the growing SMT context of one function verification.
type Script struct {
	sorts     *SortTable
	lines     []string // declarations / definitions / assertions in order
	declared  map[string]bool
	n         int
	decls     map[string]string // uninterpreted function name -> declaration line (emitted lazily in preamble)
	declOrder []string
}

func NewScript(st *SortTable) *Script {
	return &Script{sorts: st, declared: map[string]bool{}, decls: map[string]string{}}
}

func (s *Script) fresh(prefix string) string {
	s.n++
	return fmt.Sprintf("%s!%d", sanitize(prefix), s.n)
}

func sanitize(x string) string {
	var b strings.Builder
	for _, r := range x {
		switch {
		case r >= 'a' && r <= 'z', r >= 'A' && r <= 'Z', r >= '0' && r <= '9', r == '_', r == '.', r == '$', r == '!', r == '@':
			b.WriteRune(r)
		case r == '*':
			b.WriteString("P_")
		case r == '[':
			b.WriteString("L_")
		case r == ']':
			b.WriteString("_J")
		case r == '/':
			b.WriteString(".")
		default:
			b.WriteString("_")
		}
	}
	return b.String()
}

// Declare a fresh constant of the given sort.
func (s *Script) Const(prefix, sort string) Term {
	n := s.fresh(prefix)
	s.lines = append(s.lines, fmt.Sprintf("(declare-fun %s () %s)", n, sort))
	return n
}

// Define names a term (keeps sharing; returns the name).
func (s *Script) Define(prefix, sort string, t Term) Term {
	if isAtom(t) {
		return t
	}
	n := s.fresh(prefix)
	if opaqueInts && sort == "Int" && (strings.HasPrefix(t, "(+ ") || strings.HasPrefix(t, "(- ")) {
		// an opaque constant instead of a macro: the solvers' arithmetic normalisation otherwise
		// rewrites (+ off (+ i 1)) to (+ off i 1), which no longer matches the pattern (+ off q) of a
		// quantified fact about the elements of a slice (found on ExactScopeStrategyMatcher.doMatch)
		s.lines = append(s.lines, fmt.Sprintf("(declare-fun %s () Int)", n), fmt.Sprintf("(assert (= %s %s))", n, t))
		return n
	}
	s.lines = append(s.lines, fmt.Sprintf("(define-fun %s () %s %s)", n, sort, t))
	return n
}

var opaqueInts = os.Getenv("GOVC_OPAQUE_INT") != "0"

func isAtom(t Term) bool {
	return !strings.HasPrefix(t, "(") && !strings.HasPrefix(t, "\"")
}

func (s *Script) Assert(t Term) {
	if t == "true" {
		return
	}
	s.lines = append(s.lines, fmt.Sprintf("(assert %s)", t))
}

// DeclFun registers an uninterpreted function once (emitted in the preamble).
func (s *Script) DeclFun(name string, args []string, ret string) string {
	name = sanitize(name)
	if _, ok := s.decls[name]; !ok {
		s.decls[name] = fmt.Sprintf("(declare-fun %s (%s) %s)", name, strings.Join(args, " "), ret)
		s.declOrder = append(s.declOrder, name)
	}
	return name
}

func (s *Script) Mark() int { return len(s.lines) }

// Render builds a complete query: preamble, context up to mark, then extra assertions.
func (s *Script) Render(mark int, extra []string, wantModel bool) string {
	var b strings.Builder
	b.WriteString("(set-option :produce-models true)\n(set-logic ALL)\n")
	b.WriteString(s.sorts.Preamble())
	for _, n := range s.declOrder {
		b.WriteString(s.decls[n])
		b.WriteByte('\n')
	}
	for _, l := range s.lines[:mark] {
		b.WriteString(l)
		b.WriteByte('\n')
	}
	for _, l := range extra {
		b.WriteString(l)
		b.WriteByte('\n')
	}
	b.WriteString("(check-sat)\n")
	if wantModel {
		b.WriteString("(get-model)\n")
	}
	return b.String()
}

// ---------------------------------------------------------------------------
// Sorts

type SortTable struct {
	names    map[string]string // type key -> sort name
	decl     []string          // datatype declarations in dependency order
	structs  map[string]*types.Struct
	typeIDs  map[string]int
	typeByID []types.Type
}

func NewSortTable() *SortTable {
	return &SortTable{names: map[string]string{}, structs: map[string]*types.Struct{}, typeIDs: map[string]int{}}
}

func (st *SortTable) Preamble() string {
	var b strings.Builder
	b.WriteString("(declare-datatypes ((Slice 0)) (((mk_slice (sl_ref Int) (sl_off Int) (sl_len Int)))))\n")
	b.WriteString("(declare-datatypes ((Iface 0)) (((mk_iface (if_typ Int) (if_pay Int)))))\n")
	b.WriteString("(define-fun nil_iface () Iface (mk_iface 0 0))\n")
	b.WriteString("(define-fun nil_slice () Slice (mk_slice 0 0 0))\n")
	for _, d := range st.decl {
		b.WriteString(d)
		b.WriteByte('\n')
	}
	return b.String()
}

func typeKey(t types.Type) string {
	s := types.TypeString(t, func(p *types.Package) string { return p.Path() })
	// function-local named types share their name with same-named types of other functions
	if suffix := localTypeSuffix(t, 0); suffix != "" {
		s += suffix
	}
	return s
}

func localTypeSuffix(t types.Type, depth int) string {
	if depth > 3 {
		return ""
	}
	switch x := t.(type) {
	case *types.Named:
		obj := x.Obj()
		if obj != nil && obj.Pkg() != nil && obj.Parent() != nil && obj.Parent() != obj.Pkg().Scope() && obj.Parent() != types.Universe {
			return fmt.Sprintf("@L%d", obj.Pos())
		}
	case *types.Pointer:
		return localTypeSuffix(x.Elem(), depth+1)
	case *types.Slice:
		return localTypeSuffix(x.Elem(), depth+1)
	}
	return ""
}

// TypeID gives a stable positive id for a dynamic type (interface payload tag).
func (st *SortTable) TypeID(t types.Type) int {
	k := typeKey(t)
	if id, ok := st.typeIDs[k]; ok {
		return id
	}
	id := len(st.typeIDs) + 1
	st.typeIDs[k] = id
	st.typeByID = append(st.typeByID, t)
	return id
}

func isRefLike(t types.Type) bool {
	switch t.Underlying().(type) {
	case *types.Pointer, *types.Map, *types.Chan, *types.Signature:
		return true
	case *types.Basic:
		return t.Underlying().(*types.Basic).Kind() == types.UnsafePointer
	}
	return false
}

// SortOf maps a Go type to an SMT sort, declaring datatypes on demand.
func (st *SortTable) SortOf(t types.Type) string {
	if tp, ok := t.(*types.TypeParam); ok {
		_ = tp
		return "Iface"
	}
	switch u := t.Underlying().(type) {
	case *types.Basic:
		switch {
		case u.Info()&types.IsBoolean != 0:
			return "Bool"
		case u.Info()&types.IsInteger != 0:
			return "Int"
		case u.Info()&types.IsString != 0:
			return "String"
		case u.Info()&types.IsFloat != 0:
			return "Real"
		case u.Kind() == types.UnsafePointer:
			return "Int"
		case u.Kind() == types.UntypedNil:
			return "Int"
		}
		return "Int"
	case *types.Pointer, *types.Map, *types.Chan, *types.Signature:
		return "Int"
	case *types.Slice:
		return "Slice"
	case *types.Interface:
		return "Iface"
	case *types.Array:
		return "(Array Int " + st.SortOf(u.Elem()) + ")"
	case *types.Struct:
		key := typeKey(t)
		if _, isNamed := t.(*types.Named); !isNamed {
			if _, isAlias := t.(*types.Alias); !isAlias {
				key = typeKey(u)
			}
		}
		if n, ok := st.names[key]; ok {
			return n
		}
		name := "S_" + sanitize(key)
		if len(name) > 120 {
			name = fmt.Sprintf("S_anon%d", len(st.names))
		}
		st.names[key] = name
		st.structs[name] = u
		var fs []string
		for i := 0; i < u.NumFields(); i++ {
			fs = append(fs, fmt.Sprintf("(%s %s)", st.FieldSel(name, u, i), st.SortOf(u.Field(i).Type())))
		}
		st.decl = append(st.decl, fmt.Sprintf("(declare-datatypes ((%s 0)) (((mk_%s %s))))", name, name, strings.Join(fs, " ")))
		return name
	case *types.Tuple:
		return "Int" // never used as a value
	}
	return "Int"
}

func (st *SortTable) FieldSel(sortName string, u *types.Struct, i int) string {
	if n := u.Field(i).Name(); n == "_" || n == "" {
		return fmt.Sprintf("%s..blank%d", sortName, i)
	}
	return fmt.Sprintf("%s..%s", sortName, sanitize(u.Field(i).Name()))
}

// Zero value term for a Go type.
func (st *SortTable) Zero(t types.Type) Term {
	if _, ok := t.(*types.TypeParam); ok {
		return "(mk_iface 0 0)"
	}
	switch u := t.Underlying().(type) {
	case *types.Basic:
		switch {
		case u.Info()&types.IsBoolean != 0:
			return "false"
		case u.Info()&types.IsString != 0:
			return "\"\""
		case u.Info()&types.IsFloat != 0:
			return "0.0"
		}
		return "0"
	case *types.Slice:
		return "(mk_slice 0 0 0)"
	case *types.Interface:
		return "(mk_iface 0 0)"
	case *types.Array:
		return fmt.Sprintf("((as const %s) %s)", st.SortOf(t), st.Zero(u.Elem()))
	case *types.Struct:
		name := st.SortOf(t)
		if u.NumFields() == 0 {
			return "mk_" + name
		}
		var fs []string
		for i := 0; i < u.NumFields(); i++ {
			fs = append(fs, st.Zero(u.Field(i).Type()))
		}
		return fmt.Sprintf("(mk_%s %s)", name, strings.Join(fs, " "))
	}
	return "0"
}

// helpers for terms

func and(ts ...Term) Term {
	var xs []string
	for _, t := range ts {
		if t == "true" || t == "" {
			continue
		}
		if t == "false" {
			return "false"
		}
		xs = append(xs, t)
	}
	switch len(xs) {
	case 0:
		return "true"
	case 1:
		return xs[0]
	}
	return "(and " + strings.Join(xs, " ") + ")"
}

func or(ts ...Term) Term {
	var xs []string
	for _, t := range ts {
		if t == "false" || t == "" {
			continue
		}
		if t == "true" {
			return "true"
		}
		xs = append(xs, t)
	}
	switch len(xs) {
	case 0:
		return "false"
	case 1:
		return xs[0]
	}
	return "(or " + strings.Join(xs, " ") + ")"
}

func not(t Term) Term {
	switch t {
	case "true":
		return "false"
	case "false":
		return "true"
	}
	return "(not " + t + ")"
}

func implies(a, b Term) Term {
	if a == "true" {
		return b
	}
	if b == "true" || a == "false" {
		return "true"
	}
	return "(=> " + a + " " + b + ")"
}

func ite(c, a, b Term) Term {
	if c == "true" {
		return a
	}
	if c == "false" {
		return b
	}
	if a == b {
		return a
	}
	return "(ite " + c + " " + a + " " + b + ")"
}

func eq(a, b Term) Term {
	if a == b {
		return "true"
	}
	return "(= " + a + " " + b + ")"
}

func app(f string, args ...Term) Term {
	if len(args) == 0 {
		return f
	}
	return "(" + f + " " + strings.Join(args, " ") + ")"
}

func intLit(v int64) Term {
	if v < 0 {
		return fmt.Sprintf("(- %d)", -v)
	}
	return fmt.Sprintf("%d", v)
}

func strLit(s string) Term {
	var b strings.Builder
	b.WriteByte('"')
	for _, c := range []byte(s) {
		switch {
		case c == '"':
			b.WriteString("\"\"")
		case c >= 32 && c < 127 && c != '\\':
			b.WriteByte(c)
		default:
			fmt.Fprintf(&b, "\\u{%x}", c)
		}
	}
	b.WriteByte('"')
	return b.String()
}

func sortedKeys[V any](m map[string]V) []string {
	ks := make([]string, 0, len(m))
	for k := range m {
		ks = append(ks, k)
	}
	sort.Strings(ks)
	return ks
}

// TypeIDNamed gives a type id for a type known only by name (unexported std types).
func (st *SortTable) TypeIDNamed(name string) int {
	if id, ok := st.typeIDs[name]; ok {
		return id
	}
	id := len(st.typeIDs) + 1
	st.typeIDs[name] = id
	st.typeByID = append(st.typeByID, nil)
	return id
}

// RenderSliced builds a query containing only the part of the context that is connected to the
// goal: the definitions the goal (transitively) mentions and, for a bounded number of rounds, the
// assertions sharing a non-ubiquitous symbol with what has been collected. Dropping assertions only
// weakens the hypotheses, so an `unsat` answer for the sliced query is a valid proof; any other
// answer is inconclusive and the full query is used.
func (s *Script) RenderSliced(mark int, extra []string, rounds int) string {
	lines := s.lines[:mark]
	known := map[string]bool{}
	defDeps := map[string][]string{}
	defLine := map[string]int{}
	type asr struct {
		idx  int
		syms []string
	}
	var asserts []asr
	symsOf := func(l string) []string {
		var out []string
		start := -1
		for i := 0; i <= len(l); i++ {
			if i < len(l) && l[i] != ' ' && l[i] != '(' && l[i] != ')' {
				if start < 0 {
					start = i
				}
				continue
			}
			if start >= 0 {
				out = append(out, l[start:i])
				start = -1
			}
		}
		return out
	}
	for i, l := range lines {
		switch {
		case strings.HasPrefix(l, "(declare-fun "):
			fs := symsOf(l)
			if len(fs) > 1 {
				known[fs[1]] = true
				defLine[fs[1]] = i
			}
		case strings.HasPrefix(l, "(define-fun "):
			fs := symsOf(l)
			if len(fs) > 1 {
				known[fs[1]] = true
				defLine[fs[1]] = i
				defDeps[fs[1]] = fs[2:]
			}
		}
	}
	count := map[string]int{}
	for i, l := range lines {
		if strings.HasPrefix(l, "(assert ") {
			var ss []string
			seen := map[string]bool{}
			for _, t := range symsOf(l) {
				if known[t] && !seen[t] {
					seen[t] = true
					ss = append(ss, t)
					count[t]++
				}
			}
			asserts = append(asserts, asr{i, ss})
		}
	}
	cone := map[string]bool{}
	var addSym func(t string)
	addSym = func(t string) {
		if !known[t] || cone[t] {
			return
		}
		cone[t] = true
		for _, d := range defDeps[t] {
			addSym(d)
		}
	}
	for _, x := range extra {
		for _, t := range symsOf(x) {
			addSym(t)
		}
	}
	hub := func(t string) bool { return count[t] > 24 }
	included := map[int]bool{}
	for r := 0; r < rounds; r++ {
		var newly []asr
		for _, a := range asserts {
			if included[a.idx] {
				continue
			}
			for _, t := range a.syms {
				if cone[t] && !hub(t) {
					newly = append(newly, a)
					break
				}
			}
		}
		if len(newly) == 0 {
			break
		}
		for _, a := range newly {
			included[a.idx] = true
		}
		for _, a := range newly {
			for _, t := range a.syms {
				addSym(t)
			}
		}
	}
	var b strings.Builder
	b.WriteString("(set-option :produce-models true)\n(set-logic ALL)\n")
	b.WriteString(s.sorts.Preamble())
	for _, n := range s.declOrder {
		b.WriteString(s.decls[n])
		b.WriteByte('\n')
	}
	for i, l := range lines {
		switch {
		case strings.HasPrefix(l, "(assert "):
			if !included[i] {
				continue
			}
		case strings.HasPrefix(l, "(declare-fun "), strings.HasPrefix(l, "(define-fun "):
			fs := symsOf(l)
			if len(fs) > 1 && !cone[fs[1]] {
				continue
			}
		}
		b.WriteString(l)
		b.WriteByte('\n')
	}
	for _, l := range extra {
		b.WriteString(l)
		b.WriteByte('\n')
	}
	b.WriteString("(check-sat)\n")
	return b.String()
}
