package main

import (
	"encoding/json"
	"flag"
	"fmt"
	"os"
	"path/filepath"
	"regexp"
	"sort"
	"strconv"
	"strings"
	"sync"
	"time"
)

func main() {
	if len(os.Args) < 2 {
		fmt.Fprintln(os.Stderr, "usage: govc check|dump|list ...")
		os.Exit(2)
	}
	switch os.Args[1] {
	case "check":
		os.Exit(cmdCheck(os.Args[2:]))
	case "dump":
		os.Exit(cmdDump(os.Args[2:]))
	case "anchors":
		os.Exit(cmdAnchors(os.Args[2:]))
	default:
		fmt.Fprintln(os.Stderr, "unknown command", os.Args[1])
		os.Exit(2)
	}
}

func envOr(k, d string) string {
	if v := os.Getenv(k); v != "" {
		return v
	}
	return d
}

func cmdDump(args []string) int {
	fs := flag.NewFlagSet("dump", flag.ExitOnError)
	repo := fs.String("repo", envOr("VERIF_REPO", "/repo"), "")
	pat := fs.String("pkgs", "./...", "")
	fn := fs.String("func", "", "substring of function key")
	fs.Parse(args)
	w, err := LoadWorld(*repo, strings.Fields(*pat), "/verif/specs")
	if err != nil {
		fmt.Fprintln(os.Stderr, err)
		return 2
	}
	var keys []string
	for k := range w.funcs {
		if strings.Contains(k, *fn) {
			keys = append(keys, k)
		}
	}
	sort.Strings(keys)
	for _, k := range keys {
		fmt.Println("### key:", k)
		w.funcs[k].WriteTo(os.Stdout)
	}
	return 0
}

type propConfig struct {
	Packages []string       `json:"packages"`
	Sweep    string         `json:"sweep,omitempty"` // zero-annotation sweep to add (mechanism-frames | panic-freedom)
	Roots    []string       `json:"roots,omitempty"` // panic-freedom: substrings of function keys that are entry points
	Exclude  []string       `json:"exclude,omitempty"`
	Bounded  []boundedCheck `json:"bounded,omitempty"` // bounded stand-ins run on every check
	// error-kind sweep: no function reachable from the roots returns an error matching Sentinel
	// (errors.Is), except the functions whose key contains an Allow entry
	Sentinel string   `json:"sentinel,omitempty"`
	Allow    []string `json:"allow,omitempty"`
}

func cmdCheck(args []string) int {
	fs := flag.NewFlagSet("check", flag.ExitOnError)
	repo := fs.String("repo", envOr("VERIF_REPO", "/repo"), "repository root")
	verif := fs.String("verif", envOr("VERIF_HOME", "/verif"), "verif root")
	prop := fs.String("prop", "", "property id")
	tier := fs.String("tier", envOr("VERIF_TIER", "quick"), "quick|thorough")
	pkgs := fs.String("pkgs", "", "package patterns (default from contracts/props/<id>.json or ./...)")
	only := fs.String("only", "", "only functions whose key contains this")
	verbose := fs.Bool("v", false, "verbose")
	noClaims := fs.Bool("noclaims", false, "ignore claims (report everything)")
	writeClaims := fs.Bool("write-claims", false, "write the claims file from the discharged obligations (development only)")
	fs.Parse(args)
	seed, _ := strconv.Atoi(envOr("VERIF_SEED", "0"))
	t0 := time.Now()
	if *prop == "" {
		fmt.Fprintln(os.Stderr, "need -prop")
		return 2
	}
	patterns := []string{"./..."}
	var pc propConfig
	if b, err := os.ReadFile(filepath.Join(*verif, "contracts", "props", *prop+".json")); err == nil {
		_ = json.Unmarshal(b, &pc)
	}
	if *pkgs != "" {
		patterns = strings.Fields(*pkgs)
	} else if len(pc.Packages) > 0 {
		patterns = pc.Packages
	}
	w, err := LoadWorld(*repo, patterns, filepath.Join(*verif, "specs"))
	if err != nil {
		fmt.Fprintln(os.Stderr, "ENGINE-ERROR: load:", err)
		return 2
	}
	if len(w.ct.Errors) > 0 {
		for _, e := range w.ct.Errors {
			fmt.Fprintln(os.Stderr, "CONTRACT-ERROR:", e)
		}
		return 2
	}
	w.Thorough = *tier == "thorough"
	loadS := time.Since(t0).Seconds()
	// select contracts
	var cts []*Contract
	for _, k := range sortedKeys(w.ct.Funcs) {
		c := w.ct.Funcs[k]
		if !c.InRepo || c.Trusted || c.Kind != "func" {
			continue
		}
		has := false
		for _, p := range c.Props {
			if p == *prop {
				has = true
			}
		}
		if !has {
			continue
		}
		if *only != "" && !strings.Contains(c.Key, *only) {
			continue
		}
		cts = append(cts, c)
	}
	// behavioural subtyping: every in-repo implementation of an interface method under contract is
	// verified directly against the interface contract (zero annotation)
	for _, k := range sortedKeys(w.ct.Funcs) {
		c := w.ct.Funcs[k]
		if !c.InRepo || c.Kind != "iface" || (len(c.Ensures) == 0 && !c.ModSet && !c.Pure) {
			continue
		}
		has := false
		for _, p := range c.Props {
			if p == *prop {
				has = true
			}
		}
		if !has {
			continue
		}
		for _, impl := range w.implementations(c) {
			if *only != "" && !strings.Contains(impl.Key, *only) {
				continue
			}
			cts = append(cts, impl)
		}
	}
	// invariants of package-level variables: postconditions of the package initialiser
	for _, gi := range w.ct.GlobalInvs {
		has := false
		for _, p := range gi.Props {
			if p == *prop {
				has = true
			}
		}
		if !has || !gi.InRepo || w.pkgByPath[gi.Pkg] == nil {
			continue
		}
		key := gi.Pkg + ".init"
		if *only != "" && !strings.Contains(key, *only) {
			continue
		}
		var c *Contract
		for _, x := range cts {
			if x.Key == key {
				c = x
			}
		}
		if c == nil {
			c = &Contract{Key: key, Kind: "func", Pkg: gi.Pkg, File: gi.Clause.File, Props: []string{*prop}, LoopInv: map[int][]Clause{}, InRepo: true}
			cts = append(cts, c)
		}
		c.Ensures = append(c.Ensures, gi.Clause)
	}
	if pc.Sweep == "mechanism-frames" {
		have := map[string]bool{}
		for _, c := range cts {
			have[c.Key] = true
		}
		for _, c := range w.mechanismCone(*prop) {
			if have[c.Key] || (*only != "" && !strings.Contains(c.Key, *only)) {
				continue
			}
			cts = append(cts, c)
		}
	}
	if pc.Sweep == "provider-frames" {
		have := map[string]bool{}
		for _, c := range cts {
			have[c.Key] = true
		}
		for _, c := range w.providerCone(*prop) {
			if have[c.Key] || (*only != "" && !strings.Contains(c.Key, *only)) {
				continue
			}
			cts = append(cts, c)
		}
	}
	if pc.Sweep == "error-kind" {
		cts = w.errKindSweep(cts, &pc, *prop, *only)
	}
	if pc.Sweep == "panic-freedom" {
		have := map[string]bool{}
		for _, c := range cts {
			have[c.Key] = true
		}
		excl := func(path string) bool {
			for _, x := range append([]string{"/mocks", "/testsupport"}, pc.Exclude...) {
				if strings.Contains(path, x) {
					return true
				}
			}
			return false
		}
		w.coneBound = true
		for _, c := range w.coneContracts(w.rootsByPattern(pc.Roots), excl, *prop, func(c *Contract) { c.Safety = true; c.NoNilChecks = true }) {
			if have[c.Key] || (*only != "" && !strings.Contains(c.Key, *only)) {
				continue
			}
			cts = append(cts, c)
		}
	}
	results := make([]*FuncResult, len(cts))
	var wg sync.WaitGroup
	var mu sync.Mutex
	_ = mu
	sem := make(chan struct{}, 1) // VC generation is cheap; the World caches are not concurrency-safe
	for i, c := range cts {
		wg.Add(1)
		sem <- struct{}{}
		go func(i int, c *Contract) {
			defer wg.Done()
			defer func() { <-sem }()
			results[i] = w.VerifyFunc(c)
		}(i, c)
	}
	wg.Wait()
	genS := time.Since(t0).Seconds() - loadS
	engineErr := false
	var obs []*Obligation
	for _, r := range results {
		if r.Err != "" && !r.Stale {
			fmt.Fprintf(os.Stderr, "ENGINE-ERROR: %s: %s\n", r.Key, r.Err)
			engineErr = true
		}
		if r.Stale {
			fmt.Printf("STALE-CONTRACT %s\n", r.Key)
		}
		for _, ee := range r.EvalErrs {
			fmt.Printf("CONTRACT-EVAL-ERROR %s\n", ee)
		}
		obs = append(obs, r.Obs...)
	}
	for _, ce := range w.contractErrors {
		fmt.Fprintln(os.Stderr, "CONTRACT-ERROR:", ce)
		engineErr = true
	}
	outDir := filepath.Join(*verif, "out", *prop)
	os.RemoveAll(outDir)
	timeout := 10
	if *tier == "thorough" {
		timeout = 60
	}
	// quick tier: only claimed obligations decide the verdict, so only they are attempted
	// (-noclaims / -write-claims / thorough attempt everything)
	claims := loadClaims(filepath.Join(*verif, "contracts", "claims", *prop+".txt"))
	var toSolve []*Obligation
	skipped := map[*Obligation]bool{}
	for _, o := range obs {
		if *noClaims || *writeClaims || *tier == "thorough" || claims.Has(o.Name) || (o.Alt != "" && claims.Has(o.Alt)) || isKnownName(*verif, *prop, o.Name) {
			toSolve = append(toSolve, o)
		} else {
			skipped[o] = true
		}
	}
	var extra *ExtraResult
	extraDone := make(chan struct{})
	go func() {
		defer close(extraDone)
		if *only == "" {
			extra = runBounded(&Report{Prop: *prop, Verif: *verif, Repo: *repo, OutDir: outDir}, *prop, pc.Bounded)
		}
	}()
	solved := SolveAll(toSolve, filepath.Join(outDir, "smt"), timeout, *tier == "thorough", 6)
	byOb := map[*Obligation]*Verdict{}
	for _, v := range solved {
		byOb[v.Ob] = v
	}
	verdicts := make([]*Verdict, 0, len(obs))
	for _, o := range obs {
		if v, ok := byOb[o]; ok {
			verdicts = append(verdicts, v)
		} else {
			verdicts = append(verdicts, &Verdict{Ob: o, Status: "not-attempted"})
		}
	}
	rep := &Report{Prop: *prop, Tier: *tier, Seed: seed, Verif: *verif, Repo: *repo, Results: results, Verdicts: verdicts,
		LoadS: loadS, GenS: genS, T0: t0, Verbose: *verbose, NoClaims: *noClaims, WriteClaims: *writeClaims, World: w, EngineErr: engineErr, OutDir: outDir}
	<-extraDone
	rep.Extra = extra
	return rep.Finish()
}

func isKnownName(verif, prop, name string) bool {
	for _, k := range loadKnown(verif).Findings {
		if k.Property == prop && k.Obligation == name && k.Status == "open" {
			return true
		}
	}
	return false
}

// cmdAnchors (development): writes, into the contract files, the anchor of the site each cut-point
// assertion currently denotes by its ordinal: `assert at return#3: e` -> `assert at return#3@1a2b3c4d.1: e`.
func cmdAnchors(args []string) int {
	fs := flag.NewFlagSet("anchors", flag.ExitOnError)
	repo := fs.String("repo", envOr("VERIF_REPO", "/repo"), "")
	verif := fs.String("verif", envOr("VERIF_HOME", "/verif"), "")
	fs.Parse(args)
	w, err := LoadWorld(*repo, []string{"./..."}, filepath.Join(*verif, "specs"))
	if err != nil {
		fmt.Fprintln(os.Stderr, err)
		return 2
	}
	e := w.NewEnc()
	edits := map[string]map[int]string{} // file -> line -> new text
	n := 0
	for _, k := range sortedKeys(w.ct.Funcs) {
		c := w.ct.Funcs[k]
		fn := w.funcs[c.Key]
		if !c.InRepo || fn == nil || fn.Blocks == nil {
			continue
		}
		for _, ca := range c.Asserts {
			sites := e.cutSites(fn, ca.Kind, ca.Callee)
			if ca.N < 1 || ca.N > len(sites) {
				fmt.Fprintf(os.Stderr, "%s:%d: no site #%d\n", ca.Clause.File, ca.Clause.Line, ca.N)
				continue
			}
			anchor := e.siteAnchors(sites)[ca.N-1]
			if anchor == "" || anchor == ca.Anchor {
				continue
			}
			b, err := os.ReadFile(ca.Clause.File)
			if err != nil {
				continue
			}
			lines := strings.Split(string(b), "\n")
			if ca.Clause.Line < 1 || ca.Clause.Line > len(lines) {
				continue
			}
			if edits[ca.Clause.File] == nil {
				edits[ca.Clause.File] = map[int]string{}
			}
			line := lines[ca.Clause.Line-1]
			if t, ok := edits[ca.Clause.File][ca.Clause.Line]; ok {
				line = t
			}
			re := regexp.MustCompile(`#` + strconv.Itoa(ca.N) + `(@[0-9a-f.]+)?:`)
			loc := re.FindStringIndex(line)
			if loc == nil {
				continue
			}
			edits[ca.Clause.File][ca.Clause.Line] = line[:loc[0]] + "#" + strconv.Itoa(ca.N) + "@" + anchor + ":" + line[loc[1]:]
			n++
		}
	}
	for file, m := range edits {
		b, _ := os.ReadFile(file)
		lines := strings.Split(string(b), "\n")
		for ln, t := range m {
			lines[ln-1] = t
		}
		os.WriteFile(file, []byte(strings.Join(lines, "\n")), 0o644)
	}
	fmt.Printf("anchors written: %d\n", n)
	return 0
}
