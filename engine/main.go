package main

import (
	"fmt"
	"golang.org/x/tools/go/packages"
	"golang.org/x/tools/go/ssa"
	"golang.org/x/tools/go/ssa/ssautil"
)

func main() {
	cfg := &packages.Config{Mode: packages.LoadAllSyntax, Dir: "/repo", BuildFlags: []string{"-tags=verif"}}
	pkgs, err := packages.Load(cfg, "./internal/rules/mechanisms/authenticators")
	if err != nil { panic(err) }
	prog, _ := ssautil.AllPackages(pkgs, ssa.InstantiateGenerics)
	prog.Build()
	fmt.Println(len(pkgs), len(ssautil.AllFunctions(prog)))
}
