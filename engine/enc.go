package main

// Encoder: symbolic execution of go/ssa function bodies into SMT definitions,
// block-wise (no path enumeration): every block has a reach predicate, joins merge
// states with ite, loops are cut at their headers with invariants.

import (
	"fmt"
	"go/token"
	"go/types"
	"sort"
	"strings"

	"golang.org/x/tools/go/ssa"
)

type Val struct {
	T     Term
	Typ   types.Type
	Tuple []Val
	Clo   *Closure
	Addr  *Addr
}

type Closure struct {
	Fn   *ssa.Function
	Bind []Val
}

type PathStep struct {
	IsIndex bool
	Index   Term
	Field   int
	SType   types.Type // struct type (for field steps) or array type (for index steps)
}

type Addr struct {
	Comp string
	Ref  Term // "" for L: comps
	Path []PathStep
	Typ  types.Type // type of the addressed location
	Root types.Type // type of the value stored at Comp[Ref]
}

type Obligation struct {
	Name      string
	Alt       string // safety obligations: position-independent alias kind@<hash of the source line>.<occurrence>
	Kind      string
	Func      string
	Mark      int
	Guard     Term
	Formula   Term
	Src       string
	Pos       string
	ExpectSat bool
	KeepQuant bool // ExpectSat query that keeps the quantified facts (consistency check): only "unsat" is a failure
	Props     []string
	Watch     []WatchItem
	sc        *Script
}

type Enc struct {
	curCall       *ssa.CallCommon // the call being translated (callWith)
	curCallee     *ssa.Function   // static callee of the call being translated by defaultCall
	loopFreshOnly []string        // set by loopModSet: components the loop writes only through memory allocated by the function itself
	w             *World
	sc            *Script
	sorts         *SortTable
	comps         *Comps
	stateN        int
	obs           []*Obligation
	warnings      []string
	// stats
	inlined           map[string]bool
	trusted           map[string]bool // trusted spec entries used
	havocked          map[string]bool // calls with default havoc
	effFree           map[string]bool
	unsupp            map[string]bool
	top               *Frame
	allocN            int
	logs              map[string]bool
	checkSafe         bool
	axSt              *State
	evalErrs          []string
	evalFailed        bool
	immut             map[string]bool
	allocs            []allocInfo
	allocIdx          map[Term]int
	contEdges         map[int][]int
	pendingAllocComps []string
	pendingAllocType  types.Type
	frameChk          func(fr *Frame, what string, ref Term, st *State, rb Term, pos token.Pos)
}

type deferRec struct {
	call  *ssa.Defer
	guard Term
	args  []Val
	fnv   Val
}

type Frame struct {
	fn          *ssa.Function
	vals        map[ssa.Value]Val
	args        []Val
	bind        []Val
	contract    *Contract
	entry       *State
	depth       int
	defers      []deferRec
	parent      *Frame
	top         *Frame
	callN       map[string]int
	locals      map[*ssa.Alloc]string
	stack       []*ssa.Function
	retVals     []Val // at exit, for ensures
	loopHdr     *ssa.BasicBlock
	loopEntry   map[*ssa.BasicBlock]*State // state in which each loop header was first reached
	curBlock    *ssa.BasicBlock
	names       map[string]ssa.Value // source name -> unique SSA value (from DebugRef)
	ambig       map[string]bool
	recovered   Term
	panicReach  []Term
	panicStates []*State
}

func (w *World) NewEnc() *Enc {
	st := NewSortTable()
	e := &Enc{w: w, sorts: st, sc: NewScript(st), comps: &Comps{sorts: map[string]string{}},
		immut: map[string]bool{}, inlined: map[string]bool{}, trusted: map[string]bool{}, havocked: map[string]bool{}, effFree: map[string]bool{}, unsupp: map[string]bool{}, logs: map[string]bool{}}
	e.comps.Register("$alloc", "(Array Int Bool)")
	e.allocIdx = map[Term]int{}
	return e
}

func (e *Enc) warn(f string, a ...any) {
	e.warnings = append(e.warnings, fmt.Sprintf(f, a...))
}

func (e *Enc) sortOf(t types.Type) string { return e.sorts.SortOf(t) }

func (e *Enc) ob(fr *Frame, kind, name string, guard, formula Term, src string, pos token.Pos) *Obligation {
	top := fr
	if fr.top != nil {
		top = fr.top
	}
	if top.contract != nil && top.contract.SubtypeOf != "" {
		name = "subtype@" + shortKey(top.contract.SubtypeOf) + "/" + name
	}
	o := &Obligation{Name: funcShort(top.fn) + "/" + name, Kind: kind, Func: fnKey(top.fn), Mark: e.sc.Mark(), Guard: guard, Formula: formula, Src: src, sc: e.sc}
	if pos.IsValid() {
		p := e.w.fset.Position(pos)
		o.Pos = fmt.Sprintf("%s:%d", p.Filename, p.Line)
	}
	if top.contract != nil {
		o.Props = top.contract.Props
	}
	e.obs = append(e.obs, o)
	return o
}

// fnKey is the contract-table key of an SSA function.
func fnKey(fn *ssa.Function) string {
	s := fn.String()
	if o := fn.Origin(); o != nil {
		s = o.String()
	}
	// strip generic instantiation brackets on receivers too
	return stripBrackets(s)
}

func stripBrackets(s string) string {
	var b strings.Builder
	depth := 0
	for _, r := range s {
		switch r {
		case '[':
			depth++
		case ']':
			depth--
		default:
			if depth == 0 {
				b.WriteRune(r)
			}
		}
	}
	return b.String()
}

func funcShort(fn *ssa.Function) string {
	k := fnKey(fn)
	// drop module prefix for readability
	k = strings.ReplaceAll(k, "github.com/dadrus/heimdall/internal/", "")
	k = strings.ReplaceAll(k, "github.com/dadrus/heimdall/", "")
	return k
}

// ---------------------------------------------------------------------------
// components for types

func (e *Enc) fieldComp(st types.Type, i int) string {
	u := st.Underlying().(*types.Struct)
	name := "F:" + typeKey(st) + "." + u.Field(i).Name()
	if _, ok := e.comps.sorts[name]; !ok {
		e.comps.Register(name, "(Array Int "+e.sortOf(u.Field(i).Type())+")")
	}
	return name
}

func (e *Enc) cellComp(t types.Type) string {
	name := "C:" + typeKey(t)
	if _, ok := e.comps.sorts[name]; !ok {
		e.comps.Register(name, "(Array Int "+e.sortOf(t)+")")
	}
	return name
}

func (e *Enc) elemComp(t types.Type) string {
	name := "E:" + typeKey(t)
	if _, ok := e.comps.sorts[name]; !ok {
		e.comps.Register(name, "(Array Int (Array Int "+e.sortOf(t)+"))")
	}
	return name
}

func (e *Enc) mapComps(m *types.Map) (string, string) {
	k := typeKey(m.Key()) + "|" + typeKey(m.Elem())
	d, v := "MD:"+k, "MV:"+k
	if _, ok := e.comps.sorts[d]; !ok {
		ks := e.sortOf(m.Key())
		e.comps.Register(d, "(Array Int (Array "+ks+" Bool))")
		e.comps.Register(v, "(Array Int (Array "+ks+" "+e.sortOf(m.Elem())+"))")
	}
	return d, v
}

func isStruct(t types.Type) bool {
	_, ok := t.Underlying().(*types.Struct)
	return ok
}

// ---------------------------------------------------------------------------
// loads / stores through addresses

func (e *Enc) addrOfPointer(p Val) *Addr {
	if p.Addr != nil {
		return p.Addr
	}
	pt, ok := p.Typ.Underlying().(*types.Pointer)
	if !ok {
		return nil
	}
	el := pt.Elem()
	if _, isArr := el.Underlying().(*types.Array); isArr {
		// pointer to array: backing store lives in the E heap
		at := el.Underlying().(*types.Array)
		return &Addr{Comp: e.elemComp(at.Elem()), Ref: p.T, Typ: el, Root: el}
	}
	if isStruct(el) {
		return &Addr{Comp: "", Ref: p.T, Typ: el, Root: el} // whole struct: spread over field heaps
	}
	return &Addr{Comp: e.cellComp(el), Ref: p.T, Typ: el, Root: el}
}

// loadRoot reads the value stored at the root of an address.
func (e *Enc) loadRoot(st *State, a *Addr) Term {
	if a.Comp == "" {
		// whole struct from field heaps
		return e.loadStruct(st, a.Root, a.Ref)
	}
	if a.Ref == "" {
		return e.Get(st, a.Comp)
	}
	return app("select", e.Get(st, a.Comp), a.Ref)
}

func (e *Enc) loadStruct(st *State, t types.Type, ref Term) Term {
	u := t.Underlying().(*types.Struct)
	name := e.sortOf(t)
	if u.NumFields() == 0 {
		return "mk_" + name
	}
	var fs []string
	for i := 0; i < u.NumFields(); i++ {
		fs = append(fs, app("select", e.Get(st, e.fieldComp(t, i)), ref))
	}
	return app("mk_"+name, fs...)
}

func (e *Enc) storeStruct(st *State, t types.Type, ref Term, v Term) *State {
	u := t.Underlying().(*types.Struct)
	name := e.sortOf(t)
	for i := 0; i < u.NumFields(); i++ {
		c := e.fieldComp(t, i)
		st = e.Set(st, c, app("store", e.Get(st, c), ref, app(e.sorts.FieldSel(name, u, i), v)))
	}
	return st
}

func (e *Enc) project(root Term, path []PathStep) Term {
	t := root
	for _, s := range path {
		if s.IsIndex {
			t = app("select", t, s.Index)
		} else {
			u := s.SType.Underlying().(*types.Struct)
			t = app(e.sorts.FieldSel(e.sortOf(s.SType), u, s.Field), t)
		}
	}
	return t
}

// update returns root with the location at path replaced by v.
func (e *Enc) update(root Term, path []PathStep, v Term) Term {
	if len(path) == 0 {
		return v
	}
	s := path[0]
	if s.IsIndex {
		inner := e.update(app("select", root, s.Index), path[1:], v)
		return app("store", root, s.Index, inner)
	}
	u := s.SType.Underlying().(*types.Struct)
	name := e.sortOf(s.SType)
	var fs []string
	for i := 0; i < u.NumFields(); i++ {
		cur := app(e.sorts.FieldSel(name, u, i), root)
		if i == s.Field {
			cur = e.update(cur, path[1:], v)
		}
		fs = append(fs, cur)
	}
	return app("mk_"+name, fs...)
}

func (e *Enc) Load(st *State, a *Addr) Term {
	// E-heap roots for pointer-to-array without path: whole array
	return e.project(e.loadRoot(st, a), a.Path)
}

func (e *Enc) Store(st *State, a *Addr, v Term) *State {
	if a.Comp == "" {
		if len(a.Path) == 0 {
			return e.storeStruct(st, a.Root, a.Ref, v)
		}
		// first step must be a field of the root struct: go directly to that field heap
		s := a.Path[0]
		c := e.fieldComp(a.Root, s.Field)
		old := app("select", e.Get(st, c), a.Ref)
		return e.Set(st, c, app("store", e.Get(st, c), a.Ref, e.update(old, a.Path[1:], v)))
	}
	if a.Ref == "" {
		return e.Set(st, a.Comp, e.update(e.Get(st, a.Comp), a.Path, v))
	}
	h := e.Get(st, a.Comp)
	old := app("select", h, a.Ref)
	return e.Set(st, a.Comp, app("store", h, a.Ref, e.update(old, a.Path, v)))
}

// fieldAddr computes the address of field i of the struct pointed to by p.
func (e *Enc) fieldAddr(p Val, i int) *Addr {
	base := e.addrOfPointer(p)
	st := base.Typ
	u := st.Underlying().(*types.Struct)
	ft := u.Field(i).Type()
	if base.Comp == "" && len(base.Path) == 0 {
		return &Addr{Comp: e.fieldComp(st, i), Ref: base.Ref, Typ: ft, Root: ft}
	}
	np := append(append([]PathStep{}, base.Path...), PathStep{Field: i, SType: st})
	return &Addr{Comp: base.Comp, Ref: base.Ref, Path: np, Typ: ft, Root: base.Root}
}

// addrTerm gives an SMT Int for an address that escapes as a value.
func (e *Enc) addrTerm(a *Addr) Term {
	if a.Ref == "" {
		f := e.sc.DeclFun("addr_"+a.Comp, nil, "Int")
		return f
	}
	name := "addr_" + a.Comp
	for _, s := range a.Path {
		if s.IsIndex {
			name += "_i"
		} else {
			name += fmt.Sprintf("_f%d", s.Field)
		}
	}
	args := []string{"Int"}
	targs := []Term{a.Ref}
	for _, s := range a.Path {
		if s.IsIndex {
			args = append(args, "Int")
			targs = append(targs, s.Index)
		}
	}
	f := e.sc.DeclFun(name, args, "Int")
	return app(f, targs...)
}

// ---------------------------------------------------------------------------
// blocks

func rpo(fn *ssa.Function) []*ssa.BasicBlock {
	seen := make([]bool, len(fn.Blocks))
	var post []*ssa.BasicBlock
	var dfs func(b *ssa.BasicBlock)
	dfs = func(b *ssa.BasicBlock) {
		seen[b.Index] = true
		for _, s := range b.Succs {
			if !seen[s.Index] {
				dfs(s)
			}
		}
		post = append(post, b)
	}
	dfs(fn.Blocks[0])
	for i, j := 0, len(post)-1; i < j; i, j = i+1, j-1 {
		post[i], post[j] = post[j], post[i]
	}
	return post
}

func isBackEdge(u, v *ssa.BasicBlock) bool { return v.Dominates(u) }

// localAccumulator: phi (at loop header hdr) is a slice that enters the loop as nil and whose
// back-edge values are phi itself or append(phi, ...) chains; inside the loop these values are only
// appended to, measured (len/cap), indexed, or merged by phis - never passed to a call, stored,
// captured, resliced or converted. The backing store such a slice has at the loop head was then
// allocated by an append of an earlier iteration and no reference to it exists outside this frame.
func localAccumulator(phi *ssa.Phi, hdr *ssa.BasicBlock, body map[*ssa.BasicBlock]bool) bool {
	if _, ok := phi.Type().Underlying().(*types.Slice); !ok {
		return false
	}
	accum := map[ssa.Value]bool{phi: true}
	var isAccum func(v ssa.Value, d int) bool
	isAccum = func(v ssa.Value, d int) bool {
		if accum[v] {
			return true
		}
		if d > 8 {
			return false
		}
		switch x := v.(type) {
		case *ssa.Call:
			if b, ok := x.Call.Value.(*ssa.Builtin); ok && b.Name() == "append" && len(x.Call.Args) == 2 && isAccum(x.Call.Args[0], d+1) {
				accum[v] = true
				return true
			}
		case *ssa.Phi:
			if !body[x.Block()] {
				return false
			}
			accum[v] = true
			for _, ed := range x.Edges {
				if !isAccum(ed, d+1) {
					delete(accum, v)
					return false
				}
			}
			return true
		}
		return false
	}
	for i, p := range hdr.Preds {
		ed := phi.Edges[i]
		if isBackEdge(p, hdr) {
			if !isAccum(ed, 0) {
				return false
			}
		} else if c, ok := ed.(*ssa.Const); !ok || !c.IsNil() {
			return false
		}
	}
	for v := range accum {
		refs := v.Referrers()
		if refs == nil {
			return false
		}
		for _, r := range *refs {
			if !body[r.Block()] {
				continue // after the loop: irrelevant for what holds at the loop head
			}
			switch u := r.(type) {
			case *ssa.DebugRef:
			case *ssa.Phi:
				if !accum[u] {
					return false
				}
			case *ssa.Call:
				b, ok := u.Call.Value.(*ssa.Builtin)
				if !ok {
					return false
				}
				switch b.Name() {
				case "len", "cap":
				case "append":
					if u.Call.Args[0] != v || !accum[u] || (len(u.Call.Args) > 1 && u.Call.Args[1] == v) {
						return false
					}
				default:
					return false
				}
			case *ssa.IndexAddr:
				if u.X != v {
					return false
				}
				irefs := u.Referrers()
				if irefs == nil {
					return false
				}
				for _, ir := range *irefs {
					switch w := ir.(type) {
					case *ssa.DebugRef:
					case *ssa.UnOp:
						if w.Op != token.MUL {
							return false
						}
					case *ssa.Store:
						if w.Addr != u {
							return false
						}
					default:
						return false
					}
				}
			default:
				return false
			}
		}
	}
	return true
}

// loopBody computes the natural loop of header h.
func loopBody(h *ssa.BasicBlock) map[*ssa.BasicBlock]bool {
	body := map[*ssa.BasicBlock]bool{h: true}
	var stack []*ssa.BasicBlock
	for _, p := range h.Preds {
		if isBackEdge(p, h) && !body[p] {
			body[p] = true
			stack = append(stack, p)
		}
	}
	for len(stack) > 0 {
		b := stack[len(stack)-1]
		stack = stack[:len(stack)-1]
		for _, p := range b.Preds {
			if !body[p] {
				body[p] = true
				stack = append(stack, p)
			}
		}
	}
	return body
}

type retRec struct {
	reach Term
	vals  []Val
	st    *State
}

// execFunc symbolically executes fn from state st under reach; returns merged results.
func (e *Enc) execFunc(fr *Frame, st *State, reach Term) ([]Val, *State, Term) {
	fn := fr.fn
	if fr.top == nil {
		fr.top = fr
	}
	fr.vals = map[ssa.Value]Val{}
	fr.callN = map[string]int{}
	fr.locals = map[*ssa.Alloc]string{}
	fr.entry = st
	e.collectNames(fr)
	for i, p := range fn.Params {
		fr.vals[p] = fr.args[i]
	}
	for i, fv := range fn.FreeVars {
		if i < len(fr.bind) {
			fr.vals[fv] = fr.bind[i]
		} else {
			fr.vals[fv] = e.freshVal("freevar", fv.Type())
		}
	}
	blocks := rpo(fn)
	headers := map[*ssa.BasicBlock]bool{}
	for _, b := range blocks {
		for _, p := range b.Preds {
			if isBackEdge(p, b) {
				headers[b] = true
			}
		}
	}
	// loop ordinals by block index
	var hdrList []*ssa.BasicBlock
	for h := range headers {
		hdrList = append(hdrList, h)
	}
	sort.Slice(hdrList, func(i, j int) bool { return hdrList[i].Index < hdrList[j].Index })
	loopOrd := map[*ssa.BasicBlock]int{}
	for i, h := range hdrList {
		loopOrd[h] = i
	}

	type edge struct{ from, to int }
	edgeCond := map[edge]Term{}
	outState := map[*ssa.BasicBlock]*State{}
	backN := map[*ssa.BasicBlock]int{}
	var rets []retRec

	for _, b := range blocks {
		var inSt []*State
		var inC []Term
		var inP []*ssa.BasicBlock
		var cur *State
		var rb Term
		if b == fn.Blocks[0] {
			cur, rb = st, reach
		} else {
			for _, p := range b.Preds {
				if isBackEdge(p, b) {
					continue
				}
				c, ok := edgeCond[edge{p.Index, b.Index}]
				if !ok || c == "false" {
					continue
				}
				dup := false
				for _, q := range inP {
					if q == p {
						dup = true
					}
				}
				if dup {
					continue
				}
				inSt = append(inSt, outState[p])
				inC = append(inC, c)
				inP = append(inP, p)
			}
			if len(inP) == 0 {
				continue
			}
			rb = e.sc.Define(fmt.Sprintf("reach_%s_b%d", fn.Name(), b.Index), "Bool", or(inC...))
			cur = e.Merge(inSt, inC)
		}
		fr.curBlock = b
		// phis
		phiVal := func(phi *ssa.Phi) Val {
			var vs []Val
			var cs []Term
			for i, p := range b.Preds {
				for j, q := range inP {
					if q == p {
						vs = append(vs, e.value(fr, phi.Edges[i]))
						cs = append(cs, inC[j])
					}
				}
			}
			if len(vs) == 0 {
				return e.freshVal("phi", phi.Type())
			}
			acc := vs[len(vs)-1]
			for i := len(vs) - 2; i >= 0; i-- {
				if vs[i].T != acc.T {
					acc = Val{T: ite(cs[i], vs[i].T, acc.T), Typ: phi.Type()}
				} else if vs[i].Clo != acc.Clo {
					acc.Clo = nil
				}
			}
			acc.Typ = phi.Type()
			acc.T = e.sc.Define("phi_"+phi.Name(), e.sortOf(phi.Type()), acc.T)
			return acc
		}
		if headers[b] {
			// 1. establish
			tmp := map[*ssa.Phi]Val{}
			for _, in := range b.Instrs {
				if phi, ok := in.(*ssa.Phi); ok {
					tmp[phi] = phiVal(phi)
				}
			}
			for phi, v := range tmp {
				fr.vals[phi] = v
			}
			invs := e.loopInvs(fr, loopOrd[b])
			fr.loopHdr = b
			if fr.loopEntry == nil {
				fr.loopEntry = map[*ssa.BasicBlock]*State{}
			}
			fr.loopEntry[b] = cur
			for k, inv := range invs {
				f := e.evalBool(fr, inv.Expr, cur, fr.entry, inv)
				e.ob(fr, "inv.establish", fmt.Sprintf("loop%d.inv.establish#%d", loopOrd[b], k), rb, f, inv.Src, b.Instrs[0].Pos())
			}
			// 2. havoc
			body := loopBody(b)
			mod := e.loopModSet(fr, body)
			freshOnly := e.loopFreshOnly
			pre := cur
			cur = e.HavocLoop(cur, mod)
			if len(freshOnly) > 0 && fr.top != nil && fr.top.entry != nil {
				// allocation frame: cells that existed when the function was entered are not written by
				// this loop (all its stores into these components go to memory the function allocated)
				al := e.Get(fr.top.entry, "$alloc")
				for _, c := range freshOnly {
					if e.Get(cur, c) != e.Get(pre, c) {
						e.sc.Assert(fmt.Sprintf("(forall ((r Int)) (=> (select %s r) (= (select %s r) (select %s r))))", al, e.Get(cur, c), e.Get(pre, c)))
					}
				}
			}
			for _, in := range b.Instrs {
				if phi, ok := in.(*ssa.Phi); ok {
					nv := e.freshVal("loop_"+phi.Name(), phi.Type())
					e.assumeTypeInv(nv, rb)
					// implicit invariant for monotone counters: phi >= initial value when the
					// back-edge value is phi + positive constant
					if lo, ok := e.counterLowerBound(fr, phi, b, tmp[phi]); ok {
						e.sc.Assert(implies(rb, lo(nv.T)))
					}
					fr.vals[phi] = nv
					if localAccumulator(phi, b, body) {
						// a slice that starts nil and only grows by append inside this loop, never handed
						// out: its backing store is an allocation of this function that is still private
						r := e.sc.Define("accref_"+phi.Name(), "Int", "(sl_ref "+nv.T+")")
						e.sc.Assert(implies(rb, or(eq(r, "0"), app("select", e.Get(cur, "$alloc"), r))))
						if fr.top != nil && fr.top.entry != nil {
							// ... and it did not exist when the function under verification was entered
							e.sc.Assert(implies(rb, not(app("select", e.Get(fr.top.entry, "$alloc"), r))))
						}
						i := len(e.allocs)
						e.allocs = append(e.allocs, allocInfo{ref: r, typ: phi.Type(), comps: []string{e.elemComp(phi.Type().Underlying().(*types.Slice).Elem())}})
						e.allocIdx[r] = i
						e.comps.Register(e.privComp(i), "Bool")
						cur = e.Set(cur, e.privComp(i), "true")
					}
				}
			}
			// 3. assume invariants
			for _, inv := range invs {
				f := e.evalBool(fr, inv.Expr, cur, fr.entry, inv)
				if e.evalFailed {
					continue
				}
				e.sc.Assert(implies(rb, f))
			}
		} else {
			for _, in := range b.Instrs {
				if phi, ok := in.(*ssa.Phi); ok {
					fr.vals[phi] = phiVal(phi)
				}
			}
		}
		// instructions
		for _, in := range b.Instrs {
			if _, ok := in.(*ssa.Phi); ok {
				continue
			}
			switch x := in.(type) {
			case *ssa.If:
				c := e.value(fr, x.Cond).T
				c = e.sc.Define("cond", "Bool", c)
				tE := edge{b.Index, b.Succs[0].Index}
				fE := edge{b.Index, b.Succs[1].Index}
				addEdge := func(ed edge, cond Term) {
					if old, ok := edgeCond[ed]; ok {
						edgeCond[ed] = or(old, cond)
					} else {
						edgeCond[ed] = cond
					}
				}
				addEdge(tE, and(rb, c))
				addEdge(fE, and(rb, not(c)))
				outState[b] = cur
			case *ssa.Jump:
				edgeCond[edge{b.Index, b.Succs[0].Index}] = rb
				outState[b] = cur
			case *ssa.Return:
				var vs []Val
				for _, r := range x.Results {
					vs = append(vs, e.value(fr, r))
				}
				rets = append(rets, retRec{rb, vs, cur})
				outState[b] = cur
				if fr == fr.top && fr.contract != nil {
					e.returnAsserts(fr, x, vs, cur, rb)
				}
				if fr == fr.top && fr.contract != nil && rb != "false" && (e.w.Thorough || (!fr.contract.NoNilChecks && !fr.contract.WriteFrame && !strings.HasPrefix(fr.contract.File, "(synthesized"))) {
					// consistency: the assumptions collected along the way to this return (callee
					// contracts, trusted specs, axioms - including the quantified ones) must not
					// contradict each other; a contradiction would make everything below it provable
					fr.callN["consist"]++
					c := e.ob(fr, "consistency", fmt.Sprintf("consist#%d", fr.callN["consist"]), rb, "false", "assumptions on the way to this return are consistent", x.Pos())
					c.ExpectSat = true
					c.KeepQuant = true
				}
			case *ssa.Panic:
				if e.checkSafe {
					e.ob(fr, "safety.panic", e.nextName(fr, "safety.panic"), rb, "false", "explicit panic unreachable", x.Pos())
				}
				fr.panicReach = append(fr.panicReach, rb)
				fr.panicStates = append(fr.panicStates, cur)
				outState[b] = cur
			default:
				cur, rb = e.instr(fr, in, cur, rb)
			}
		}
		// back edges: preserve invariants
		for _, s := range b.Succs {
			if !isBackEdge(b, s) {
				continue
			}
			c, ok := edgeCond[edge{b.Index, s.Index}]
			if !ok {
				continue
			}
			// bind phis of s to their values along this edge
			saved := map[*ssa.Phi]Val{}
			predIdx := -1
			for i, p := range s.Preds {
				if p == b {
					predIdx = i
				}
			}
			for _, in := range s.Instrs {
				if phi, ok := in.(*ssa.Phi); ok {
					saved[phi] = fr.vals[phi]
				}
			}
			newVals := map[*ssa.Phi]Val{}
			for phi := range saved {
				newVals[phi] = e.value(fr, phi.Edges[predIdx])
			}
			for phi, v := range newVals {
				fr.vals[phi] = v
			}
			fr.loopHdr = s
			invs := e.loopInvs(fr, loopOrd[s])
			backN[s]++
			for k, inv := range invs {
				f := e.evalBool(fr, inv.Expr, outState[b], fr.entry, inv)
				e.ob(fr, "inv.preserve", fmt.Sprintf("loop%d.inv.preserve#%d.e%d", loopOrd[s], k, backN[s]), c, f, inv.Src, s.Instrs[0].Pos())
			}
			for phi, v := range saved {
				fr.vals[phi] = v
			}
		}
	}
	// merge returns
	if len(rets) == 0 {
		return nil, st, "false"
	}
	var rs []*State
	var rc []Term
	for _, r := range rets {
		rs = append(rs, r.st)
		rc = append(rc, r.reach)
	}
	outReach := e.sc.Define("ret_reach_"+fn.Name(), "Bool", or(rc...))
	out := e.Merge(rs, rc)
	nres := fn.Signature.Results().Len()
	vals := make([]Val, nres)
	for i := 0; i < nres; i++ {
		acc := rets[len(rets)-1].vals[i]
		for j := len(rets) - 2; j >= 0; j-- {
			v := rets[j].vals[i]
			if v.T != acc.T {
				acc = Val{T: ite(rets[j].reach, v.T, acc.T), Typ: v.Typ}
			}
		}
		t := fn.Signature.Results().At(i).Type()
		acc.Typ = t
		acc.T = e.sc.Define(fmt.Sprintf("ret%d_%s", i, fn.Name()), e.sortOf(t), acc.T)
		vals[i] = acc
	}
	return vals, out, outReach
}

func (e *Enc) nextName(fr *Frame, kind string) string {
	top := fr.top
	top.callN[kind]++
	return fmt.Sprintf("%s#%d", kind, top.callN[kind])
}

func (e *Enc) freshVal(prefix string, t types.Type) Val {
	if tup, ok := t.(*types.Tuple); ok {
		v := Val{Typ: t}
		for i := 0; i < tup.Len(); i++ {
			v.Tuple = append(v.Tuple, e.freshVal(prefix, tup.At(i).Type()))
		}
		return v
	}
	v := Val{T: e.sc.Const(prefix, e.sortOf(t)), Typ: t}
	e.assumeTypeInv(v, "true")
	return v
}

// assumeTypeInv asserts representation invariants of a value of the Go type
// (unsigned ints and lengths are non-negative).
func (e *Enc) assumeTypeInv(v Val, guard Term) {
	if v.Typ == nil {
		return
	}
	switch u := v.Typ.Underlying().(type) {
	case *types.Basic:
		if u.Info()&types.IsUnsigned != 0 {
			e.sc.Assert(implies(guard, "(>= "+v.T+" 0)"))
		}
	case *types.Slice:
		// lengths are Go ints: 0 <= len <= 2^63-1
		e.sc.Assert(implies(guard, and("(>= (sl_len "+v.T+") 0)", "(<= (sl_len "+v.T+") 9223372036854775807)", "(>= (sl_off "+v.T+") 0)", implies("(= (sl_ref "+v.T+") 0)", and("(= (sl_len "+v.T+") 0)", "(= (sl_off "+v.T+") 0)")))))
	}
}

// counterLowerBound recognises phi = [init, phi + c] with constant c > 0 and constant init.
func (e *Enc) counterLowerBound(fr *Frame, phi *ssa.Phi, hdr *ssa.BasicBlock, initVal Val) (func(Term) Term, bool) {
	b, ok := phi.Type().Underlying().(*types.Basic)
	if !ok || b.Info()&types.IsInteger == 0 {
		return nil, false
	}
	okAll := true
	for i, p := range hdr.Preds {
		if !isBackEdge(p, hdr) {
			continue
		}
		bo, ok := phi.Edges[i].(*ssa.BinOp)
		if !ok || bo.Op != token.ADD || bo.X != phi {
			okAll = false
			break
		}
		c, ok := bo.Y.(*ssa.Const)
		if !ok || c.Value == nil || c.Int64() <= 0 {
			okAll = false
			break
		}
	}
	if !okAll {
		return nil, false
	}
	init := initVal.T
	return func(t Term) Term { return "(>= " + t + " " + init + ")" }, true
}

func (e *Enc) loopInvs(fr *Frame, ord int) []Clause {
	if fr.contract == nil {
		return nil
	}
	return fr.contract.LoopInv[ord]
}

// collectNames maps source-level variable names to SSA values using DebugRef instructions
// and phi/alloc comments.
func (e *Enc) collectNames(fr *Frame) {
	fr.names = map[string]ssa.Value{}
	fr.ambig = map[string]bool{}
	add := func(n string, v ssa.Value) {
		if n == "" || n == "_" {
			return
		}
		if old, ok := fr.names[n]; ok && old != v {
			// a variable living in a cell (captured by a closure, or address taken): the cell is the
			// variable, the values loaded from it are not further candidates
			if al, isAl := old.(*ssa.Alloc); isAl && al.Comment == n {
				if ld, isLd := v.(*ssa.UnOp); isLd && ld.X == al {
					return
				}
				// a value stored into the cell (assignment) is not a further candidate either
				stored := false
				if refs := al.Referrers(); refs != nil {
					for _, r := range *refs {
						if st, ok := r.(*ssa.Store); ok && st.Addr == al && st.Val == v {
							stored = true
						}
					}
				}
				if stored {
					return
				}
			}
			if al, isAl := v.(*ssa.Alloc); isAl {
				if ld, isLd := old.(*ssa.UnOp); isLd && ld.X == al && !fr.ambig[n] {
					fr.names[n] = v
					return
				}
			}
			fr.ambig[n] = true
			return
		}
		fr.names[n] = v
	}
	for _, p := range fr.fn.Params {
		add(p.Name(), p)
	}
	for _, b := range fr.fn.Blocks {
		for _, in := range b.Instrs {
			switch x := in.(type) {
			case *ssa.DebugRef:
				if id, ok := x.Expr.(interface{ String() string }); ok {
					_ = id
				}
				if obj := x.Object(); obj != nil && !x.IsAddr {
					add(obj.Name(), x.X)
				}
			case *ssa.Alloc:
				add(x.Comment, x)
			}
		}
	}
}

// assumeAllocated: every non-nil reference reachable in a well-formed heap is allocated.
func (e *Enc) assumeAllocated(v Val, st *State) {
	if v.Tuple != nil {
		for _, x := range v.Tuple {
			e.assumeAllocated(x, st)
		}
		return
	}
	if v.Typ == nil || v.Addr != nil {
		return
	}
	refs := e.refsOf(v, nil, 0)
	if len(refs) == 0 {
		return
	}
	al := e.Get(st, "$alloc")
	for _, r := range refs {
		e.sc.Assert(implies("(not (= "+r+" 0))", "(select "+al+" "+r+")"))
	}
}

// refsOf collects the reference terms contained in a value (for leak tracking).
func (e *Enc) refsOf(v Val, out []Term, depth int) []Term {
	if depth > 4 || v.Typ == nil {
		return out
	}
	if v.Tuple != nil {
		for _, x := range v.Tuple {
			out = e.refsOf(x, out, depth+1)
		}
		return out
	}
	if v.Clo != nil {
		for _, b := range v.Clo.Bind {
			out = e.refsOf(b, out, depth+1)
		}
		return out
	}
	if v.Addr != nil {
		if v.Addr.Ref != "" {
			out = append(out, v.Addr.Ref)
		}
		return out
	}
	switch u := v.Typ.Underlying().(type) {
	case *types.Pointer, *types.Map, *types.Chan:
		out = append(out, v.T)
	case *types.Slice:
		out = append(out, "(sl_ref "+v.T+")")
	case *types.Interface:
		out = append(out, "(if_pay "+v.T+")")
	case *types.Struct:
		name := e.sortOf(v.Typ)
		for i := 0; i < u.NumFields(); i++ {
			ft := u.Field(i).Type()
			if pureValueType(ft, 0) {
				continue
			}
			out = e.refsOf(Val{T: app(e.sorts.FieldSel(name, u, i), v.T), Typ: ft}, out, depth+1)
		}
	}
	return out
}

// typedRefsOf collects the reference terms contained in a value together with their static types.
func (e *Enc) typedRefsOf(v Val, out []typedRef, depth int) []typedRef {
	if depth > 4 || v.Typ == nil {
		return out
	}
	if v.Tuple != nil {
		for _, x := range v.Tuple {
			out = e.typedRefsOf(x, out, depth+1)
		}
		return out
	}
	if v.Clo != nil {
		for _, b := range v.Clo.Bind {
			out = e.typedRefsOf(b, out, depth+1)
		}
		out = append(out, typedRef{v.T, v.Typ})
		return out
	}
	if v.Addr != nil {
		if v.Addr.Ref != "" {
			out = append(out, typedRef{v.Addr.Ref, nil})
		}
		return out
	}
	switch u := v.Typ.Underlying().(type) {
	case *types.Pointer, *types.Map, *types.Chan, *types.Signature:
		out = append(out, typedRef{v.T, v.Typ})
	case *types.Slice:
		out = append(out, typedRef{"(sl_ref " + v.T + ")", v.Typ})
	case *types.Interface:
		out = append(out, typedRef{"(if_pay " + v.T + ")", nil})
	case *types.Struct:
		name := e.sortOf(v.Typ)
		for i := 0; i < u.NumFields(); i++ {
			ft := u.Field(i).Type()
			if pureValueType(ft, 0) {
				continue
			}
			out = e.typedRefsOf(Val{T: app(e.sorts.FieldSel(name, u, i), v.T), Typ: ft}, out, depth+1)
		}
	}
	return out
}

// returnAsserts: cut-point assertions `assert at return#k: e` - k counts the return statements of
// the function in source order; ret0.. denote the values returned there.
func (e *Enc) returnAsserts(fr *Frame, ret *ssa.Return, vals []Val, st *State, rb Term) {
	has := false
	for _, ca := range fr.contract.Asserts {
		if ca.Kind == "return" {
			has = true
		}
	}
	if !has {
		return
	}
	for k, ca := range fr.contract.Asserts {
		if ca.Kind != "return" || !e.matchCut(fr.fn, ca, ret) {
			continue
		}
		ord := ca.N
		saved := fr.retVals
		fr.retVals = vals
		f, watch := e.evalBoolWatch(e.hostEnv(fr), ca.Clause.Expr, st, fr.entry, ca.Clause)
		fr.retVals = saved
		fr.callN[fmt.Sprintf("assertseen:%d", k)]++
		name := fmt.Sprintf("assert@return#%d", ord)
		if c := fr.callN["assertname:"+name]; c > 0 {
			name = fmt.Sprintf("%s.%d", name, c+1)
		}
		fr.callN["assertname:"+fmt.Sprintf("assert@return#%d", ord)]++
		o := e.ob(fr, "assert", name, rb, f, ca.Clause.Src, ret.Pos())
		o.Watch = append(e.paramWatch(fr), watch...)
	}
}
