package main

// Contract expression language: lexer + Pratt parser.
//   Go-like expressions plus  ==>  <==>  old(e)  forall x T :: e   exists x T :: e
//   ret0.. / result names, spec-function application, Is(e,t), typeOf(e), fresh(e), held(m)

import (
	"fmt"
	"strings"
	"unicode"
)

type CExpr interface{ String() string }

type (
	CIdent struct{ Name string }
	CInt   struct{ V string }
	CStr   struct{ V string }
	CBool  struct{ V bool }
	CNil   struct{}
	CUnary struct {
		Op string
		X  CExpr
	}
	CBinary struct {
		Op   string
		L, R CExpr
	}
	CSel struct {
		X    CExpr
		Name string
	}
	CIndex struct{ X, I CExpr }
	CSlice struct{ X, Lo, Hi CExpr }
	CCall  struct {
		Fun  string
		Args []CExpr
		FunX CExpr
	}
	CQuant struct {
		Forall   bool
		Var, Typ string
		Body     CExpr
	}
	CIte struct{ C, A, B CExpr }
)

func (e CIdent) String() string  { return e.Name }
func (e CInt) String() string    { return e.V }
func (e CStr) String() string    { return fmt.Sprintf("%q", e.V) }
func (e CBool) String() string   { return fmt.Sprint(e.V) }
func (e CNil) String() string    { return "nil" }
func (e CUnary) String() string  { return e.Op + e.X.String() }
func (e CBinary) String() string { return "(" + e.L.String() + " " + e.Op + " " + e.R.String() + ")" }
func (e CSel) String() string    { return e.X.String() + "." + e.Name }
func (e CIndex) String() string  { return e.X.String() + "[" + e.I.String() + "]" }
func (e CSlice) String() string  { return e.X.String() + "[:]" }
func (e CCall) String() string {
	var as []string
	for _, a := range e.Args {
		as = append(as, a.String())
	}
	return e.Fun + "(" + strings.Join(as, ", ") + ")"
}
func (e CQuant) String() string {
	q := "exists"
	if e.Forall {
		q = "forall"
	}
	return q + " " + e.Var + " " + e.Typ + " :: " + e.Body.String()
}
func (e CIte) String() string {
	return "ite(" + e.C.String() + "," + e.A.String() + "," + e.B.String() + ")"
}

type tok struct {
	kind string // id int str op eof
	s    string
}

func lexC(src string) ([]tok, error) {
	var out []tok
	i := 0
	ops := []string{"<==>", "==>", "::", "&&", "||", "==", "!=", "<=", ">=", "<<", ">>", "+", "-", "*", "/", "%", "<", ">", "!", "(", ")", "[", "]", ".", ",", ":", "&"}
	for i < len(src) {
		c := src[i]
		switch {
		case c == ' ' || c == '\t':
			i++
		case unicode.IsLetter(rune(c)) || c == '_' || c == '$':
			j := i + 1
			for j < len(src) && (unicode.IsLetter(rune(src[j])) || unicode.IsDigit(rune(src[j])) || src[j] == '_' || src[j] == '$') {
				j++
			}
			out = append(out, tok{"id", src[i:j]})
			i = j
		case unicode.IsDigit(rune(c)):
			j := i + 1
			for j < len(src) && (unicode.IsDigit(rune(src[j])) || src[j] == '_') {
				j++
			}
			out = append(out, tok{"int", strings.ReplaceAll(src[i:j], "_", "")})
			i = j
		case c == '"':
			j := i + 1
			var sb strings.Builder
			for j < len(src) && src[j] != '"' {
				if src[j] == '\\' && j+1 < len(src) {
					j++
					switch src[j] {
					case 'n':
						sb.WriteByte('\n')
					case 't':
						sb.WriteByte('\t')
					default:
						sb.WriteByte(src[j])
					}
				} else {
					sb.WriteByte(src[j])
				}
				j++
			}
			if j >= len(src) {
				return nil, fmt.Errorf("unterminated string in %q", src)
			}
			out = append(out, tok{"str", sb.String()})
			i = j + 1
		default:
			matched := false
			for _, op := range ops {
				if strings.HasPrefix(src[i:], op) {
					out = append(out, tok{"op", op})
					i += len(op)
					matched = true
					break
				}
			}
			if !matched {
				return nil, fmt.Errorf("bad character %q in %q", c, src)
			}
		}
	}
	out = append(out, tok{"eof", ""})
	return out, nil
}

type cparser struct {
	toks []tok
	p    int
	src  string
}

func ParseCExpr(src string) (e CExpr, err error) {
	toks, err := lexC(src)
	if err != nil {
		return nil, err
	}
	p := &cparser{toks: toks, src: src}
	defer func() {
		if r := recover(); r != nil {
			err = fmt.Errorf("parse error in %q: %v", src, r)
		}
	}()
	e = p.expr(0)
	if p.peek().kind != "eof" {
		panic(fmt.Sprintf("unexpected %q", p.peek().s))
	}
	return e, nil
}

func (p *cparser) peek() tok { return p.toks[p.p] }
func (p *cparser) next() tok { t := p.toks[p.p]; p.p++; return t }
func (p *cparser) expect(s string) {
	t := p.next()
	if t.s != s {
		panic(fmt.Sprintf("expected %q got %q", s, t.s))
	}
}

var binPrec = map[string]int{
	"<==>": 1, "==>": 2, "||": 3, "&&": 4,
	"==": 5, "!=": 5, "<": 5, "<=": 5, ">": 5, ">=": 5,
	"+": 6, "-": 6,
	"*": 7, "/": 7, "%": 7, "<<": 7, ">>": 7,
}

func (p *cparser) expr(minPrec int) CExpr {
	// quantifiers bind as loosely as possible
	if t := p.peek(); t.kind == "id" && (t.s == "forall" || t.s == "exists") {
		p.next()
		v := p.next().s
		var typ []string
		for p.peek().s != "::" {
			typ = append(typ, p.next().s)
		}
		p.expect("::")
		body := p.expr(0)
		return CQuant{Forall: t.s == "forall", Var: v, Typ: strings.Join(typ, ""), Body: body}
	}
	l := p.unary()
	for {
		t := p.peek()
		if t.kind != "op" {
			return l
		}
		prec, ok := binPrec[t.s]
		if !ok || prec < minPrec {
			return l
		}
		p.next()
		var r CExpr
		if t.s == "==>" { // right assoc
			r = p.expr(prec)
		} else {
			r = p.expr(prec + 1)
		}
		l = CBinary{Op: t.s, L: l, R: r}
	}
}

func (p *cparser) unary() CExpr {
	t := p.peek()
	if t.kind == "op" && (t.s == "!" || t.s == "-" || t.s == "*" || t.s == "&") {
		p.next()
		return CUnary{Op: t.s, X: p.unary()}
	}
	return p.postfix(p.primary())
}

func (p *cparser) primary() CExpr {
	t := p.next()
	switch t.kind {
	case "int":
		return CInt{t.s}
	case "str":
		return CStr{t.s}
	case "id":
		switch t.s {
		case "true":
			return CBool{true}
		case "false":
			return CBool{false}
		case "nil":
			return CNil{}
		}
		return CIdent{t.s}
	case "op":
		if t.s == "(" {
			e := p.expr(0)
			p.expect(")")
			return e
		}
	}
	panic(fmt.Sprintf("unexpected token %q", t.s))
}

func (p *cparser) postfix(x CExpr) CExpr {
	for {
		t := p.peek()
		if t.kind != "op" {
			return x
		}
		switch t.s {
		case ".":
			p.next()
			n := p.next()
			if n.kind != "id" {
				panic("expected field name")
			}
			x = CSel{x, n.s}
		case "[":
			p.next()
			var lo, hi CExpr
			if p.peek().s != ":" {
				lo = p.expr(0)
			}
			if p.peek().s == ":" {
				p.next()
				if p.peek().s != "]" {
					hi = p.expr(0)
				}
				p.expect("]")
				x = CSlice{x, lo, hi}
			} else {
				p.expect("]")
				x = CIndex{x, lo}
			}
		case "(":
			p.next()
			var args []CExpr
			for p.peek().s != ")" {
				args = append(args, p.expr(0))
				if p.peek().s == "," {
					p.next()
				}
			}
			p.expect(")")
			name := ""
			switch f := x.(type) {
			case CIdent:
				name = f.Name
			case CSel:
				name = f.String()
			default:
				panic("call of non-name")
			}
			x = CCall{Fun: name, Args: args, FunX: x}
		default:
			return x
		}
	}
}
