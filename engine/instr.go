package main

import (
	"fmt"
	"go/constant"
	"go/token"
	"go/types"
	"hash/fnv"
	"strings"

	"golang.org/x/tools/go/ssa"
)

// value returns the symbolic value of an SSA value in the frame.
func (e *Enc) value(fr *Frame, v ssa.Value) Val {
	if x, ok := fr.vals[v]; ok {
		return x
	}
	switch c := v.(type) {
	case *ssa.Const:
		return e.constVal(c)
	case *ssa.Function:
		return Val{T: e.funcRef(c), Typ: c.Type(), Clo: &Closure{Fn: c}}
	case *ssa.Global:
		// address of a package-level variable
		t := c.Type().(*types.Pointer).Elem()
		name := "G:" + c.Pkg.Pkg.Path() + "." + c.Name()
		if _, ok := e.comps.sorts[name]; !ok {
			e.comps.Register(name, e.sortOf(t))
		}
		return Val{T: e.sc.DeclFun("gaddr_"+c.Pkg.Pkg.Path()+"."+c.Name(), nil, "Int"), Typ: c.Type(), Addr: &Addr{Comp: name, Typ: t, Root: t}}
	case *ssa.Builtin:
		return Val{T: "0", Typ: c.Type()}
	}
	// value defined in a block not (yet) executed (unreachable pred): unconstrained
	nv := e.freshVal("undef_"+v.Name(), v.Type())
	fr.vals[v] = nv
	return nv
}

func (e *Enc) funcRef(fn *ssa.Function) Term {
	return e.sc.DeclFun("fn_"+fn.String(), nil, "Int")
}

func (e *Enc) constVal(c *ssa.Const) Val {
	t := c.Type()
	if c.Value == nil {
		return Val{T: e.sorts.Zero(t), Typ: t}
	}
	switch c.Value.Kind() {
	case constant.Bool:
		if constant.BoolVal(c.Value) {
			return Val{T: "true", Typ: t}
		}
		return Val{T: "false", Typ: t}
	case constant.String:
		return Val{T: strLit(constant.StringVal(c.Value)), Typ: t}
	case constant.Int:
		if b, ok := t.Underlying().(*types.Basic); ok && b.Info()&types.IsFloat != 0 {
			return Val{T: c.Value.ExactString() + ".0", Typ: t}
		}
		s := c.Value.ExactString()
		if strings.HasPrefix(s, "-") {
			s = "(- " + s[1:] + ")"
		}
		return Val{T: s, Typ: t}
	case constant.Float:
		f, _ := constant.Float64Val(c.Value)
		s := fmt.Sprintf("%f", f)
		if strings.HasPrefix(s, "-") {
			s = "(- " + s[1:] + ")"
		}
		return Val{T: s, Typ: t}
	}
	return e.freshVal("const", t)
}

func (e *Enc) set(fr *Frame, v ssa.Value, x Val) {
	if x.Typ == nil {
		x.Typ = v.Type()
	}
	if x.Tuple == nil && x.T != "" && !isAtom(x.T) {
		x.T = e.sc.Define(v.Name()+"_"+fr.fn.Name(), e.sortOf(v.Type()), x.T)
	}
	fr.vals[v] = x
}

func (e *Enc) allocRef(st *State, prefix string, reach Term) (Term, *State) {
	r := e.sc.Const(prefix, "Int")
	al := e.Get(st, "$alloc")
	e.sc.Assert(and("(not (= "+r+" 0))", "(not (select "+al+" "+r+"))"))
	st = e.Set(st, "$alloc", app("store", al, r, "true"))
	i := len(e.allocs)
	e.allocs = append(e.allocs, allocInfo{ref: r, typ: e.pendingAllocType, comps: e.pendingAllocComps})
	e.allocIdx[r] = i
	e.pendingAllocComps, e.pendingAllocType = nil, nil
	e.comps.Register(e.privComp(i), "Bool")
	st = e.Set(st, e.privComp(i), "true")
	return r, st
}

// escapes reports whether an Alloc's address is used other than for direct loads/stores.
func allocEscapes(a *ssa.Alloc) bool {
	var chk func(v ssa.Value, depth int) bool
	chk = func(v ssa.Value, depth int) bool {
		refs := v.Referrers()
		if refs == nil {
			return true
		}
		for _, r := range *refs {
			switch x := r.(type) {
			case *ssa.Store:
				if x.Val == v {
					return true
				}
			case *ssa.UnOp:
				if x.Op != token.MUL {
					return true
				}
			case *ssa.FieldAddr:
				if chk(x, depth+1) {
					return true
				}
			case *ssa.IndexAddr:
				if x.X != v || chk(x, depth+1) {
					return true
				}
			case *ssa.DebugRef:
			case *ssa.MakeClosure:
				if depth > 0 {
					return true
				}
				// a variable that the capturing closure (and closures nested in it) only reads can be
				// changed by nobody but the enclosing function, wherever the closure value travels
				readOnly := true
				for i, bnd := range x.Bindings {
					if bnd == v {
						inner := x.Fn.(*ssa.Function)
						if i >= len(inner.FreeVars) || closureStores(inner, inner.FreeVars[i]) != 0 {
							readOnly = false
						}
					}
				}
				if readOnly {
					continue
				}
				// closure must be tame: only called, or passed to an in-repo static callee
				if crefs := x.Referrers(); crefs != nil {
					for _, cr := range *crefs {
						switch y := cr.(type) {
						case *ssa.Call:
							if y.Call.Value == x {
								continue
							}
							if fn, ok := y.Call.Value.(*ssa.Function); ok && strings.HasPrefix(fnPkgPath(fn), modulePath) {
								continue
							}
							return true
						case *ssa.Defer:
							if y.Call.Value == x {
								continue
							}
							return true
						case *ssa.DebugRef:
						default:
							return true
						}
					}
				}
			default:
				return true
			}
		}
		return false
	}
	return chk(a, 0)
}

func (e *Enc) instr(fr *Frame, in ssa.Instruction, st *State, rb Term) (*State, Term) {
	switch x := in.(type) {
	case *ssa.DebugRef:
		return st, rb
	case *ssa.Alloc:
		t := x.Type().(*types.Pointer).Elem()
		if _, isArr := t.Underlying().(*types.Array); !isArr && !allocEscapes(x) {
			e.allocN++
			name := fmt.Sprintf("L:%s.%s#%d", fr.fn.Name(), x.Comment, e.allocN)
			e.comps.Register(name, e.sortOf(t))
			st = e.Set(st, name, e.sorts.Zero(t))
			fr.locals[x] = name
			fr.vals[x] = Val{T: e.sc.DeclFun("addr_"+name, nil, "Int"), Typ: x.Type(), Addr: &Addr{Comp: name, Typ: t, Root: t}}
			return st, rb
		}
		var r Term
		if at, isArr := t.Underlying().(*types.Array); isArr {
			e.pendingAllocComps = []string{e.elemComp(at.Elem())}
		} else if isStruct(t) {
			e.pendingAllocComps = []string{"F:" + typeKey(t) + "."}
		} else {
			e.pendingAllocComps = []string{e.cellComp(t)}
		}
		e.pendingAllocType = x.Type()
		r, st = e.allocRef(st, "new_"+x.Name(), rb)
		pv := Val{T: r, Typ: x.Type()}
		if at, isArr := t.Underlying().(*types.Array); isArr {
			c := e.elemComp(at.Elem())
			st = e.Set(st, c, app("store", e.Get(st, c), r, e.sorts.Zero(t)))
		} else if isStruct(t) {
			st = e.storeStruct(st, t, r, e.sorts.Zero(t))
		} else {
			c := e.cellComp(t)
			st = e.Set(st, c, app("store", e.Get(st, c), r, e.sorts.Zero(t)))
		}
		fr.vals[x] = pv
		return st, rb
	case *ssa.FieldAddr:
		p := e.value(fr, x.X)
		e.nilCheckV(fr, p, rb, x.Pos(), x.X)
		a := e.fieldAddr(p, x.Field)
		fr.vals[x] = Val{T: e.addrTerm(a), Typ: x.Type(), Addr: a}
		return st, rb
	case *ssa.Field:
		s := e.value(fr, x.X)
		u := x.X.Type().Underlying().(*types.Struct)
		e.set(fr, x, Val{T: app(e.sorts.FieldSel(e.sortOf(x.X.Type()), u, x.Field), s.T)})
		return st, rb
	case *ssa.IndexAddr:
		base := e.value(fr, x.X)
		idx := e.value(fr, x.Index).T
		switch bt := x.X.Type().Underlying().(type) {
		case *types.Slice:
			inRange := and("(<= 0 "+idx+")", "(< "+idx+" (sl_len "+base.T+"))")
			e.safety(fr, "safety.index", rb, inRange, x.Pos())
			a := &Addr{Comp: e.elemComp(bt.Elem()), Ref: "(sl_ref " + base.T + ")", Typ: bt.Elem(), Root: types.NewArray(bt.Elem(), 0),
				Path: []PathStep{{IsIndex: true, Index: "(+ (sl_off " + base.T + ") " + idx + ")"}}}
			fr.vals[x] = Val{T: e.addrTerm(a), Typ: x.Type(), Addr: a}
			// execution continues past the index expression only when the index was in range
			// (otherwise the run-time panics)
			if _, isConst := x.Index.(*ssa.Const); isConst {
				rb = e.sc.Define("inrange_"+x.Name(), "Bool", and(rb, inRange))
			}
		case *types.Pointer:
			at := bt.Elem().Underlying().(*types.Array)
			e.nilCheck(fr, base, rb, x.Pos())
			e.safety(fr, "safety.index", rb, and("(<= 0 "+idx+")", fmt.Sprintf("(< %s %d)", idx, at.Len())), x.Pos())
			ba := e.addrOfPointer(base)
			np := append(append([]PathStep{}, ba.Path...), PathStep{IsIndex: true, Index: idx})
			a := &Addr{Comp: ba.Comp, Ref: ba.Ref, Path: np, Typ: at.Elem(), Root: ba.Root}
			fr.vals[x] = Val{T: e.addrTerm(a), Typ: x.Type(), Addr: a}
		default:
			e.unsupported(fr, "IndexAddr on "+x.X.Type().String())
			fr.vals[x] = e.freshVal("idxaddr", x.Type())
		}
		return st, rb
	case *ssa.Index:
		base := e.value(fr, x.X)
		idx := e.value(fr, x.Index).T
		switch bt := x.X.Type().Underlying().(type) {
		case *types.Array:
			e.safety(fr, "safety.index", rb, and("(<= 0 "+idx+")", fmt.Sprintf("(< %s %d)", idx, bt.Len())), x.Pos())
			e.set(fr, x, Val{T: app("select", base.T, idx)})
		case *types.Basic: // string
			e.safety(fr, "safety.index", rb, and("(<= 0 "+idx+")", "(< "+idx+" (str.len "+base.T+"))"), x.Pos())
			e.set(fr, x, Val{T: "(str.to_code (str.at " + base.T + " " + idx + "))"})
		default:
			fr.vals[x] = e.freshVal("index", x.Type())
		}
		return st, rb
	case *ssa.UnOp:
		v := e.value(fr, x.X)
		switch x.Op {
		case token.MUL:
			a := e.addrOfPointer(v)
			if a == nil {
				e.unsupported(fr, "load through "+x.X.Type().String())
				fr.vals[x] = e.freshVal("load", x.Type())
				return st, rb
			}
			if v.Addr == nil {
				e.nilCheckV(fr, v, rb, x.Pos(), x.X)
			}
			nv := Val{T: e.Load(st, a), Typ: x.Type()}
			e.set(fr, x, nv)
			e.assumeTypeInv(fr.vals[x], "true")
			e.assumeAllocated(fr.vals[x], st)
			if a.Ref != "" {
				e.assumeNotPrivateFrom(fr.vals[x], st, a.Ref)
			}
		case token.NOT:
			e.set(fr, x, Val{T: not(v.T)})
		case token.SUB:
			e.set(fr, x, Val{T: "(- " + v.T + ")"})
		case token.ARROW:
			e.unsupported(fr, "channel receive")
			fr.vals[x] = e.freshVal("recv", x.Type())
		default:
			fr.vals[x] = e.freshVal("unop", x.Type())
		}
		return st, rb
	case *ssa.BinOp:
		e.set(fr, x, e.binop(fr, x.Op, e.value(fr, x.X), e.value(fr, x.Y), x.Type(), rb, x.Pos()))
		return st, rb
	case *ssa.Store:
		p := e.value(fr, x.Addr)
		v := e.value(fr, x.Val)
		a := e.addrOfPointer(p)
		if a == nil {
			e.unsupported(fr, "store through "+x.Addr.Type().String())
			return st, rb
		}
		if p.Addr == nil {
			e.nilCheckV(fr, p, rb, x.Pos(), x.Addr)
		}
		e.checkStoreFrame(fr, a, st, rb, x.Pos())
		// closures stored into locals keep their static identity via the frame map
		if a.Ref != "" {
			st = e.Contain(st, a.Ref, v) // stays private only inside a private object
		}
		if fr == fr.top && fr.contract != nil {
			e.storeAsserts(fr, x, v, st, rb)
		}
		if g, ok := x.Addr.(*ssa.Global); ok && fr.top != nil && fr.top.contract != nil && fr.top.contract.WriteFrame {
			e.ob(fr, "wframe", e.nextName(fr, "wframe"), rb, "false", "store to the package-level variable "+g.Name(), x.Pos())
		}
		st = e.Store(st, a, e.coerce(v, a.Typ))
		if v.Clo != nil && a.Ref == "" && len(a.Path) == 0 {
			e.cloStore(fr, a.Comp, v.Clo)
		}
		return st, rb
	case *ssa.MakeInterface:
		e.set(fr, x, e.makeIface(e.value(fr, x.X), x.X.Type()))
		e.plainErrorValue(fr.vals[x], x.X.Type(), st, rb)
		return st, rb
	case *ssa.ChangeInterface:
		v := e.value(fr, x.X)
		fr.vals[x] = Val{T: v.T, Typ: x.Type()}
		return st, rb
	case *ssa.ChangeType:
		v := e.value(fr, x.X)
		nv := Val{T: e.coerce(v, x.Type()), Typ: x.Type(), Clo: v.Clo}
		fr.vals[x] = nv
		return st, rb
	case *ssa.Convert:
		e.set(fr, x, e.convert(fr, e.value(fr, x.X), x.X.Type(), x.Type()))
		return st, rb
	case *ssa.TypeAssert:
		v := e.value(fr, x.X)
		ok, val := e.typeAssert(v, x.AssertedType)
		e.assumeTypeInv(Val{T: val, Typ: x.AssertedType}, ok)
		if x.CommaOk {
			zero := e.sorts.Zero(x.AssertedType)
			valT := e.sc.Define("ta_"+x.Name(), e.sortOf(x.AssertedType), ite(ok, val, zero))
			okT := e.sc.Define("taok_"+x.Name(), "Bool", ok)
			fr.vals[x] = Val{Typ: x.Type(), Tuple: []Val{{T: valT, Typ: x.AssertedType}, {T: okT, Typ: types.Typ[types.Bool]}}}
		} else if types.Identical(x.X.Type(), x.AssertedType) {
			// i.(I) with I the static type of i is go/ssa's nil check of a method value's receiver
			e.safety(fr, "safety.nil", rb, "(not (= (if_typ "+v.T+") 0))", x.Pos())
			e.set(fr, x, Val{T: v.T, Typ: x.AssertedType})
		} else {
			e.safety(fr, "safety.assert", rb, ok, x.Pos())
			e.set(fr, x, Val{T: val, Typ: x.AssertedType})
		}
		return st, rb
	case *ssa.Extract:
		t := e.value(fr, x.Tuple)
		if x.Index < len(t.Tuple) {
			fr.vals[x] = t.Tuple[x.Index]
		} else {
			fr.vals[x] = e.freshVal("extract", x.Type())
		}
		return st, rb
	case *ssa.MakeClosure:
		fn := x.Fn.(*ssa.Function)
		var bind []Val
		for _, b := range x.Bindings {
			bind = append(bind, e.value(fr, b))
		}
		// a closure value is a fresh reference whose captured variables are recoverable from it
		// (cloFV_<fn>_<k>), so that a later call through a stored function value can be related to
		// what was captured
		var r Term
		e.pendingAllocComps = []string{"-"}
		e.pendingAllocType = x.Type()
		r, st = e.allocRef(st, "closure_"+x.Name(), rb)
		e.sc.Assert(eq(app(e.sc.DeclFun("cloFn", []string{"Int"}, "Int"), r), e.funcRef(fn)))
		for k, b := range bind {
			if b.Tuple != nil || k >= len(fn.FreeVars) {
				continue
			}
			f := e.sc.DeclFun(fmt.Sprintf("cloFV_%s_%d", fn.String(), k), []string{"Int"}, e.sortOf(fn.FreeVars[k].Type()))
			e.sc.Assert(eq(app(f, r), b.T))
			// captured variables that are never assigned after the closure is created: their value at
			// creation time is recoverable from the closure value (cloFVinit)
			if et, ok := effectivelyFinal(fn, k, x.Bindings[k]); ok {
				if a := e.addrOfPointer(b); a != nil {
					g := e.sc.DeclFun(fmt.Sprintf("cloFVinit_%s_%d", fn.String(), k), []string{"Int"}, e.sortOf(et))
					e.sc.Assert(eq(app(g, r), e.Load(st, a)))
				}
			}
		}
		fr.vals[x] = Val{T: r, Typ: x.Type(), Clo: &Closure{Fn: fn, Bind: bind}}
		return st, rb
	case *ssa.MakeMap:
		var r Term
		mt := x.Type().Underlying().(*types.Map)
		d, mvc := e.mapComps(mt)
		e.pendingAllocComps = []string{d, mvc}
		e.pendingAllocType = x.Type()
		r, st = e.allocRef(st, "map_"+x.Name(), rb)
		inner := "(Array " + e.sortOf(mt.Key()) + " Bool)"
		st = e.Set(st, d, app("store", e.Get(st, d), r, "((as const "+inner+") false)"))
		fr.vals[x] = Val{T: r, Typ: x.Type()}
		return st, rb
	case *ssa.MakeSlice:
		var r Term
		stp := x.Type().Underlying().(*types.Slice)
		c := e.elemComp(stp.Elem())
		e.pendingAllocComps = []string{c}
		e.pendingAllocType = x.Type()
		r, st = e.allocRef(st, "mkslice_"+x.Name(), rb)
		arr := "(Array Int " + e.sortOf(stp.Elem()) + ")"
		st = e.Set(st, c, app("store", e.Get(st, c), r, "((as const "+arr+") "+e.sorts.Zero(stp.Elem())+")"))
		ln := e.value(fr, x.Len).T
		e.safety(fr, "safety.slice", rb, "(>= "+ln+" 0)", x.Pos())
		e.set(fr, x, Val{T: app("mk_slice", r, "0", ln)})
		return st, rb
	case *ssa.MakeChan:
		e.unsupported(fr, "make(chan)")
		var r Term
		r, st = e.allocRef(st, "chan", rb)
		fr.vals[x] = Val{T: r, Typ: x.Type()}
		return st, rb
	case *ssa.Slice:
		e.set(fr, x, e.sliceOp(fr, x, st, rb))
		return st, rb
	case *ssa.Lookup:
		m := e.value(fr, x.X)
		k := e.value(fr, x.Index)
		if mt, ok := x.X.Type().Underlying().(*types.Map); ok {
			d, vv := e.mapComps(mt)
			kt := e.coerce(k, mt.Key())
			okT := e.sc.Define("mapok", "Bool", app("select", app("select", e.Get(st, d), m.T), kt))
			val := ite(okT, app("select", app("select", e.Get(st, vv), m.T), kt), e.sorts.Zero(mt.Elem()))
			if x.CommaOk {
				valT := e.sc.Define("mapval", e.sortOf(mt.Elem()), val)
				fr.vals[x] = Val{Typ: x.Type(), Tuple: []Val{{T: valT, Typ: mt.Elem()}, {T: okT, Typ: types.Typ[types.Bool]}}}
			} else {
				e.set(fr, x, Val{T: val, Typ: mt.Elem()})
			}
		} else { // string index
			e.safety(fr, "safety.index", rb, and("(<= 0 "+k.T+")", "(< "+k.T+" (str.len "+m.T+"))"), x.Pos())
			e.set(fr, x, Val{T: "(str.to_code (str.at " + m.T + " " + k.T + "))"})
		}
		return st, rb
	case *ssa.MapUpdate:
		m := e.value(fr, x.Map)
		k := e.value(fr, x.Key)
		v := e.value(fr, x.Value)
		mt := x.Map.Type().Underlying().(*types.Map)
		d, vv := e.mapComps(mt)
		e.safety(fr, "safety.mapnil", rb, "(not (= "+m.T+" 0))", x.Pos())
		e.checkMapFrame(fr, m, st, rb, x.Pos())
		kt := e.coerce(k, mt.Key())
		st = e.Contain(st, m.T, k)
		st = e.Contain(st, m.T, v)
		dd := e.Get(st, d)
		st = e.Set(st, d, app("store", dd, m.T, app("store", app("select", dd, m.T), kt, "true")))
		vh := e.Get(st, vv)
		st = e.Set(st, vv, app("store", vh, m.T, app("store", app("select", vh, m.T), kt, e.coerce(v, mt.Elem()))))
		return st, rb
	case *ssa.Range:
		v := e.value(fr, x.X)
		fr.vals[x] = Val{T: v.T, Typ: x.X.Type()}
		return st, rb
	case *ssa.Next:
		it := e.value(fr, x.Iter)
		tup := x.Type().(*types.Tuple)
		okT := e.sc.Const("next_ok", "Bool")
		if mt, ok := it.Typ.Underlying().(*types.Map); ok && !x.IsString {
			d, vv := e.mapComps(mt)
			k := e.sc.Const("next_key", e.sortOf(mt.Key()))
			e.sc.Assert(implies(okT, app("select", app("select", e.Get(st, d), it.T), k)))
			val := app("select", app("select", e.Get(st, vv), it.T), k)
			valT := e.sc.Define("next_val", e.sortOf(mt.Elem()), val)
			kv := Val{T: k, Typ: mt.Key()}
			vvv := Val{T: valT, Typ: mt.Elem()}
			// tuple element types may be invalid (blank) – keep positions
			fr.vals[x] = Val{Typ: tup, Tuple: []Val{{T: okT, Typ: types.Typ[types.Bool]}, kv, vvv}}
			// ghost log "mapnext": one entry per iteration of a range-over-map loop (key boxed as an
			// interface value), for contracts that count what a loop body does per key
			if fr.top != nil && fr.top.contract != nil && fr.top.contract.UsesMapNext {
				e.comps.Register("$mapnext.n", "Int")
				e.comps.Register("$mapnext.arg0", "(Array Int Iface)")
				n := e.Get(st, "$mapnext.n")
				boxed := kv
				if e.sortOf(mt.Key()) != "Iface" {
					boxed = e.makeIface(kv, mt.Key())
				}
				st = e.Set(st, "$mapnext.arg0", ite(okT, app("store", e.Get(st, "$mapnext.arg0"), n, boxed.T), e.Get(st, "$mapnext.arg0")))
				st = e.Set(st, "$mapnext.n", ite(okT, "(+ "+n+" 1)", n))
				e.logs["mapnext"] = true
			}
		} else {
			fr.vals[x] = Val{Typ: tup, Tuple: []Val{{T: okT, Typ: types.Typ[types.Bool]}, e.freshVal("next_k", types.Typ[types.Int]), e.freshVal("next_v", types.Typ[types.Int32])}}
		}
		return st, rb
	case *ssa.Call:
		res, st2, rb2 := e.call(fr, &x.Call, x, st, rb)
		if res.Typ == nil {
			res.Typ = x.Type()
		}
		fr.vals[x] = res
		return st2, rb2
	case *ssa.Defer:
		var args []Val
		for _, a := range x.Call.Args {
			args = append(args, e.value(fr, a))
		}
		var fnv Val
		if !x.Call.IsInvoke() {
			fnv = e.value(fr, x.Call.Value)
		} else {
			fnv = e.value(fr, x.Call.Value)
		}
		if fr.loopHdr != nil && loopBody(fr.loopHdr)[x.Block()] {
			e.unsupported(fr, "defer inside loop")
		}
		fr.defers = append(fr.defers, deferRec{call: x, guard: rb, args: args, fnv: fnv})
		return st, rb
	case *ssa.RunDefers:
		for i := len(fr.defers) - 1; i >= 0; i-- {
			d := fr.defers[i]
			g := and(rb, d.guard)
			_, st2, _ := e.callWith(fr, &d.call.Call, d.call, st, g, d.args, &d.fnv)
			st = e.Merge([]*State{st2, st}, []Term{d.guard, "true"})
		}
		return st, rb
	case *ssa.Go:
		e.unsupported(fr, "go statement")
		for _, a := range x.Call.Args {
			st = e.Leak(st, e.value(fr, a))
		}
		if !x.Call.IsInvoke() {
			st = e.Leak(st, e.value(fr, x.Call.Value))
		}
		if fr.top != nil && fr.top.contract != nil && fr.top.contract.UsesGoStart {
			// ghost counter "gostart": go statements executed so far (for "X happens before any
			// goroutine is started" at cut points)
			e.comps.Register("$gostart.n", "Int")
			n := e.Get(st, "$gostart.n")
			st = e.Havoc(st, e.modAllHeap())
			st = e.Set(st, "$gostart.n", "(+ "+n+" 1)")
			e.logs["gostart"] = true
			return st, rb
		}
		return e.Havoc(st, e.modAllHeap()), rb
	case *ssa.Send, *ssa.Select:
		e.unsupported(fr, "channel operation")
		if v, ok := in.(ssa.Value); ok {
			fr.vals[v] = e.freshVal("chanop", v.Type())
		}
		return e.Havoc(st, e.modAllHeap()), rb
	case *ssa.SliceToArrayPointer, *ssa.MultiConvert:
		v := in.(ssa.Value)
		fr.vals[v] = e.freshVal("conv", v.Type())
		return st, rb
	}
	if v, ok := in.(ssa.Value); ok {
		e.unsupported(fr, fmt.Sprintf("instruction %T", in))
		fr.vals[v] = e.freshVal("unk", v.Type())
	}
	return st, rb
}

func (e *Enc) cloStore(fr *Frame, comp string, c *Closure) {
	if e.w.cloCells == nil {
		e.w.cloCells = map[string]*Closure{}
	}
}

func (e *Enc) unsupported(fr *Frame, what string) {
	e.unsupp[funcShort(fr.fn)+": "+what] = true
}

func (e *Enc) safety(fr *Frame, kind string, rb, cond Term, pos token.Pos) {
	if !e.checkSafe || cond == "true" {
		return
	}
	if fr.top.contract != nil && !fr.top.contract.Safety {
		return
	}
	if kind == "safety.nil" && fr.top.contract != nil && fr.top.contract.NoNilChecks {
		return
	}
	o := e.ob(fr, kind, e.nextName(fr, kind), rb, cond, kind, pos)
	o.Watch = e.paramWatch(fr.top)
	if pos.IsValid() {
		// alias that survives insertions and deletions elsewhere in the function: hash of the source
		// line's text plus the occurrence count of that (kind, text) in this function
		p := e.w.fset.Position(pos)
		h := fnv.New32a()
		h.Write([]byte(strings.Join(strings.Fields(e.w.lineText(p.Filename, p.Line)), " ")))
		key := fmt.Sprintf("%s@%08x", kind, h.Sum32())
		fr.top.callN["alt:"+key]++
		o.Alt = funcShort(fr.top.fn) + "/" + fmt.Sprintf("%s.%d", key, fr.top.callN["alt:"+key])
	}
}

func (e *Enc) nilCheck(fr *Frame, p Val, rb Term, pos token.Pos) {
	e.nilCheckV(fr, p, rb, pos, nil)
}

// signalResult reports whether v is (an extract of) the pointer result of a call to a function
// outside the repository whose results include neither an error nor a bool: for such functions a
// nil pointer is the only way to signal "nothing there" (pem.Decode, http.Request.Cookie-likes...).
func (e *Enc) signalResult(v ssa.Value) bool {
	seen := 0
	for v != nil && seen < 8 {
		seen++
		switch x := v.(type) {
		case *ssa.Extract:
			v = x.Tuple
		case *ssa.ChangeType:
			v = x.X
		case *ssa.UnOp:
			// a variable filled in by errors.As whose boolean result is thrown away: nil when the
			// error chain holds no such error
			if x.Op != token.MUL {
				return false
			}
			al, ok := x.X.(*ssa.Alloc)
			if !ok || al.Referrers() == nil {
				return false
			}
			for _, r := range *al.Referrers() {
				mi, ok := r.(*ssa.MakeInterface)
				if !ok || mi.Referrers() == nil {
					continue
				}
				for _, u := range *mi.Referrers() {
					call, ok := u.(*ssa.Call)
					if !ok {
						continue
					}
					if f := call.Call.StaticCallee(); f == nil || f.Pkg == nil || f.Pkg.Pkg.Path() != "errors" || f.Name() != "As" {
						continue
					}
					used := false
					if cr := call.Referrers(); cr != nil {
						for _, w := range *cr {
							if _, dbg := w.(*ssa.DebugRef); !dbg {
								used = true
							}
						}
					}
					if !used {
						return true
					}
				}
			}
			return false
		case *ssa.Call:
			callee := x.Call.StaticCallee()
			if callee == nil || callee.Pkg == nil || e.w.inRepoPkg(callee.Pkg.Pkg.Path()) {
				return false
			}
			res := callee.Signature.Results()
			hasPtr, hasIface, discarded := false, false, false
			for i := 0; i < res.Len(); i++ {
				t := res.At(i).Type()
				if types.Identical(t, types.Universe.Lookup("error").Type()) {
					// an error result that the caller throws away (`v, _ := f()`) leaves nil as the only signal
					used := false
					if refs := x.Referrers(); refs != nil {
						for _, r := range *refs {
							if ex, ok := r.(*ssa.Extract); ok && ex.Index == i {
								if er := ex.Referrers(); er != nil {
									for _, u := range *er {
										if _, dbg := u.(*ssa.DebugRef); !dbg {
											used = true
										}
									}
								}
							}
						}
					}
					if used {
						return false
					}
					discarded = true
					continue
				}
				if b, ok := t.Underlying().(*types.Basic); ok && b.Kind() == types.Bool {
					return false
				}
				switch t.Underlying().(type) {
				case *types.Pointer:
					hasPtr = true
				case *types.Interface:
					hasIface = true
				}
			}
			return hasPtr || (discarded && hasIface)
		default:
			return false
		}
	}
	return false
}

func (e *Enc) nilCheckV(fr *Frame, p Val, rb Term, pos token.Pos, src ssa.Value) {
	if p.Addr != nil {
		return
	}
	// receivers and pointer parameters of the function under verification are taken to be non-nil
	// (a caller-side obligation; listed as an assumption of the sweep)
	if fr.top != nil {
		for _, a := range fr.top.args {
			if a.T == p.T {
				return
			}
		}
	}
	if _, isAlloc := e.allocIdx[p.T]; isAlloc {
		return
	}
	if fr.top != nil && fr.top.contract != nil && fr.top.contract.NoNilChecks {
		if src != nil && e.signalResult(src) {
			e.safety(fr, "safety.nilsignal", rb, "(not (= "+p.T+" 0))", pos)
		} else if pt, ok := p.Typ.Underlying().(*types.Pointer); ok && src != nil {
			// a pointer to a plain value (*time.Duration, *bool, *string ...) read from a field is the
			// "optional setting" idiom of decoded configuration: nil means absent, so a dereference
			// needs the nil test on its way (struct pointers carry construction invariants the sweep
			// does not know and stay exempt)
			if _, isStruct := pt.Elem().Underlying().(*types.Struct); !isStruct {
				if u, ok := src.(*ssa.UnOp); ok && u.Op == token.MUL {
					if _, ok := u.X.(*ssa.FieldAddr); ok {
						e.safety(fr, "safety.nilopt", rb, "(not (= "+p.T+" 0))", pos)
					}
				}
			}
		}
		return
	}
	e.safety(fr, "safety.nil", rb, "(not (= "+p.T+" 0))", pos)
}

func (e *Enc) makeIface(v Val, t types.Type) Val {
	it := types.NewInterfaceType(nil, nil)
	if _, ok := t.Underlying().(*types.Interface); ok {
		return Val{T: v.T, Typ: t}
	}
	id := e.sorts.TypeID(t)
	if isRefLike(t) {
		return Val{T: fmt.Sprintf("(mk_iface %d %s)", id, v.T), Typ: it, Clo: v.Clo}
	}
	srt := e.sortOf(t)
	box := e.sc.DeclFun("box_"+typeKey(t), []string{srt}, "Int")
	unbox := e.sc.DeclFun("unbox_"+typeKey(t), []string{"Int"}, srt)
	e.sc.Assert(eq(app(unbox, app(box, v.T)), v.T))
	return Val{T: fmt.Sprintf("(mk_iface %d %s)", id, app(box, v.T)), Typ: it}
}

// typeAssert returns (ok condition, value term).
func (e *Enc) typeAssert(v Val, t types.Type) (Term, Term) {
	if _, isIface := t.Underlying().(*types.Interface); isIface {
		p := e.sc.DeclFun("implements_"+typeKey(t), []string{"Int"}, "Bool")
		e.sc.Assert(not(app(p, "0")))
		return app(p, "(if_typ "+v.T+")"), v.T
	}
	id := e.sorts.TypeID(t)
	ok := fmt.Sprintf("(= (if_typ %s) %d)", v.T, id)
	if isRefLike(t) {
		return ok, "(if_pay " + v.T + ")"
	}
	srt := e.sortOf(t)
	unbox := e.sc.DeclFun("unbox_"+typeKey(t), []string{"Int"}, srt)
	box := e.sc.DeclFun("box_"+typeKey(t), []string{srt}, "Int")
	val := app(unbox, "(if_pay "+v.T+")")
	// boxing is a bijection on values of this dynamic type
	e.sc.Assert(implies(ok, eq(app(box, val), "(if_pay "+v.T+")")))
	return ok, val
}

// coerce adapts a value to a target Go type where the SMT sorts differ
// (concrete -> interface is done by MakeInterface in SSA; here: identical underlying structs).
func (e *Enc) coerce(v Val, to types.Type) Term {
	if v.Typ == nil || to == nil {
		return v.T
	}
	from := e.sortOf(v.Typ)
	target := e.sortOf(to)
	if from == target {
		return v.T
	}
	fu, ok1 := v.Typ.Underlying().(*types.Struct)
	tu, ok2 := to.Underlying().(*types.Struct)
	if ok1 && ok2 && fu.NumFields() == tu.NumFields() {
		if tu.NumFields() == 0 {
			return "mk_" + target
		}
		var fs []string
		for i := 0; i < fu.NumFields(); i++ {
			fs = append(fs, e.coerce(Val{T: app(e.sorts.FieldSel(from, fu, i), v.T), Typ: fu.Field(i).Type()}, tu.Field(i).Type()))
		}
		return app("mk_"+target, fs...)
	}
	if target == "Iface" && from != "Iface" {
		return e.makeIface(v, v.Typ).T
	}
	return v.T
}

func (e *Enc) convert(fr *Frame, v Val, from, to types.Type) Val {
	fb, _ := from.Underlying().(*types.Basic)
	tb, _ := to.Underlying().(*types.Basic)
	switch {
	case fb != nil && tb != nil && fb.Info()&types.IsInteger != 0 && tb.Info()&types.IsInteger != 0:
		// integer conversion: identity on mathematical integers when the target is at least
		// as wide and same signedness; otherwise wrap is not modelled -> range-guarded identity
		if fits(fb, tb) {
			return Val{T: v.T, Typ: to}
		}
		lo, hi := intRange(tb)
		if lo == "" {
			return Val{T: v.T, Typ: to}
		}
		r := e.sc.Const("conv", "Int")
		inRange := and("(<= "+lo+" "+v.T+")", "(<= "+v.T+" "+hi+")")
		e.sc.Assert(implies(inRange, eq(r, v.T)))
		e.sc.Assert(and("(<= "+lo+" "+r+")", "(<= "+r+" "+hi+")"))
		return Val{T: r, Typ: to}
	case fb != nil && tb != nil && fb.Info()&types.IsString != 0 && tb.Info()&types.IsString != 0:
		return Val{T: v.T, Typ: to}
	case fb != nil && tb != nil && fb.Info()&types.IsInteger != 0 && tb.Info()&types.IsFloat != 0:
		return Val{T: "(to_real " + v.T + ")", Typ: to}
	case fb != nil && tb != nil && fb.Info()&types.IsFloat != 0 && tb.Info()&types.IsFloat != 0:
		return Val{T: v.T, Typ: to}
	case fb != nil && fb.Info()&types.IsString != 0 && isByteSlice(to):
		f := e.sc.DeclFun("str2bytes", []string{"String"}, "Slice")
		g := e.sc.DeclFun("bytes2str", []string{"Slice"}, "String")
		r := app(f, v.T)
		e.sc.Assert(eq(app(g, r), v.T))
		e.sc.Assert(eq("(sl_len "+r+")", "(str.len "+v.T+")"))
		return Val{T: r, Typ: to}
	case tb != nil && tb.Info()&types.IsString != 0 && isByteSlice(from):
		g := e.sc.DeclFun("bytes2str", []string{"Slice"}, "String")
		r := app(g, v.T)
		e.sc.Assert(eq("(sl_len "+v.T+")", "(str.len "+r+")"))
		return Val{T: r, Typ: to}
	}
	if e.sortOf(from) == e.sortOf(to) {
		return Val{T: v.T, Typ: to}
	}
	if fb != nil && tb != nil && fb.Info()&types.IsFloat != 0 && tb.Info()&types.IsInteger != 0 {
		// float -> integer truncation: an uninterpreted function (contracts: f2i(x))
		f := e.sc.DeclFun("f2i", []string{"Real"}, "Int")
		return Val{T: app(f, v.T), Typ: to}
	}
	return e.freshVal("convert", to)
}

func isByteSlice(t types.Type) bool {
	s, ok := t.Underlying().(*types.Slice)
	if !ok {
		return false
	}
	b, ok := s.Elem().Underlying().(*types.Basic)
	return ok && (b.Kind() == types.Byte || b.Kind() == types.Uint8)
}

func bits(b *types.Basic) (int, bool) {
	switch b.Kind() {
	case types.Int8:
		return 8, true
	case types.Int16:
		return 16, true
	case types.Int32:
		return 32, true
	case types.Int64, types.Int:
		return 64, true
	case types.Uint8:
		return 8, false
	case types.Uint16:
		return 16, false
	case types.Uint32:
		return 32, false
	case types.Uint64, types.Uint, types.Uintptr:
		return 64, false
	}
	return 64, true
}

func fits(from, to *types.Basic) bool {
	fb, fs := bits(from)
	tb, ts := bits(to)
	if fs == ts {
		return tb >= fb
	}
	if !fs && ts {
		return tb > fb
	}
	return false
}

func intRange(b *types.Basic) (string, string) {
	n, signed := bits(b)
	pow := func(k int) string {
		// 2^k as decimal
		v := new(bigInt).pow2(k)
		return v
	}
	if signed {
		return "(- " + pow(n-1) + ")", "(- " + pow(n-1) + " 1)"
	}
	return "0", "(- " + pow(n) + " 1)"
}

type bigInt struct{}

func (*bigInt) pow2(k int) string {
	// small helper without math/big import noise
	digits := []int{1}
	for i := 0; i < k; i++ {
		carry := 0
		for j := range digits {
			d := digits[j]*2 + carry
			digits[j] = d % 10
			carry = d / 10
		}
		if carry > 0 {
			digits = append(digits, carry)
		}
	}
	var b strings.Builder
	for i := len(digits) - 1; i >= 0; i-- {
		b.WriteByte(byte('0' + digits[i]))
	}
	return b.String()
}

func (e *Enc) binop(fr *Frame, op token.Token, a, b Val, rt types.Type, rb Term, pos token.Pos) Val {
	isStr := false
	isFloat := false
	if bt, ok := a.Typ.Underlying().(*types.Basic); ok {
		isStr = bt.Info()&types.IsString != 0
		isFloat = bt.Info()&types.IsFloat != 0
	}
	// comparing values of different static types (e.g. iface vs concrete) does not occur in SSA
	switch op {
	case token.ADD:
		if isStr {
			return Val{T: "(str.++ " + a.T + " " + b.T + ")", Typ: rt}
		}
		return e.arith(fr, "+", a, b, rt, rb, pos)
	case token.SUB:
		return e.arith(fr, "-", a, b, rt, rb, pos)
	case token.MUL:
		return e.arith(fr, "*", a, b, rt, rb, pos)
	case token.QUO:
		if isFloat {
			return Val{T: "(/ " + a.T + " " + b.T + ")", Typ: rt}
		}
		e.safety(fr, "safety.div", rb, "(not (= "+b.T+" 0))", pos)
		return Val{T: goDiv(a.T, b.T), Typ: rt}
	case token.REM:
		e.safety(fr, "safety.div", rb, "(not (= "+b.T+" 0))", pos)
		return Val{T: goRem(a.T, b.T), Typ: rt}
	case token.EQL:
		return Val{T: eq(a.T, e.coerce(b, a.Typ)), Typ: rt}
	case token.NEQ:
		return Val{T: not(eq(a.T, e.coerce(b, a.Typ))), Typ: rt}
	case token.LSS, token.LEQ, token.GTR, token.GEQ:
		o := map[token.Token]string{token.LSS: "<", token.LEQ: "<=", token.GTR: ">", token.GEQ: ">="}[op]
		if isStr {
			switch op {
			case token.LSS:
				return Val{T: "(str.< " + a.T + " " + b.T + ")", Typ: rt}
			case token.LEQ:
				return Val{T: "(str.<= " + a.T + " " + b.T + ")", Typ: rt}
			case token.GTR:
				return Val{T: "(str.< " + b.T + " " + a.T + ")", Typ: rt}
			default:
				return Val{T: "(str.<= " + b.T + " " + a.T + ")", Typ: rt}
			}
		}
		return Val{T: "(" + o + " " + a.T + " " + b.T + ")", Typ: rt}
	case token.SHL:
		if c, ok := constInt(b.T); ok && c >= 0 && c < 63 {
			return Val{T: fmt.Sprintf("(* %s %d)", a.T, int64(1)<<uint(c)), Typ: rt}
		}
	case token.SHR:
		if c, ok := constInt(b.T); ok && c >= 0 && c < 63 {
			return Val{T: fmt.Sprintf("(div %s %d)", a.T, int64(1)<<uint(c)), Typ: rt}
		}
	}
	// bit operations: uninterpreted
	f := e.sc.DeclFun("bitop_"+op.String(), []string{"Int", "Int"}, "Int")
	if e.sortOf(rt) != "Int" || e.sortOf(a.Typ) != "Int" {
		return e.freshVal("binop", rt)
	}
	return Val{T: app(f, a.T, b.T), Typ: rt}
}

func constInt(t Term) (int64, bool) {
	var v int64
	if _, err := fmt.Sscanf(t, "%d", &v); err == nil && fmt.Sprint(v) == t {
		return v, true
	}
	return 0, false
}

func goDiv(a, b Term) Term {
	// truncated division
	return fmt.Sprintf("(ite (>= %s 0) (ite (> %s 0) (div %s %s) (- (div %s (- %s)))) (ite (> %s 0) (- (div (- %s) %s)) (div (- %s) (- %s))))", a, b, a, b, a, b, b, a, b, a, b)
}

func goRem(a, b Term) Term {
	return fmt.Sprintf("(- %s (* %s %s))", a, b, goDiv(a, b))
}

func (e *Enc) arith(fr *Frame, op string, a, b Val, rt types.Type, rb Term, pos token.Pos) Val {
	t := "(" + op + " " + a.T + " " + b.T + ")"
	if bt, ok := rt.Underlying().(*types.Basic); ok && bt.Info()&types.IsInteger != 0 && e.w.overflowFor(fr) {
		lo, hi := intRange(bt)
		e.ob(fr, "safety.overflow", e.nextName(fr, "safety.overflow"), rb, and("(<= "+lo+" "+t+")", "(<= "+t+" "+hi+")"), "no overflow in "+op, pos)
	}
	return Val{T: t, Typ: rt}
}

func (e *Enc) sliceOp(fr *Frame, x *ssa.Slice, st *State, rb Term) Val {
	base := e.value(fr, x.X)
	var lo, hi Term = "0", ""
	if x.Low != nil {
		lo = e.value(fr, x.Low).T
	}
	if x.High != nil {
		hi = e.value(fr, x.High).T
	}
	switch bt := x.X.Type().Underlying().(type) {
	case *types.Slice:
		if hi == "" {
			hi = "(sl_len " + base.T + ")"
		}
		// cap is not modelled: high bound checked against len (stricter than Go for reslicing up to cap)
		e.safety(fr, "safety.slice", rb, and("(<= 0 "+lo+")", "(<= "+lo+" "+hi+")", "(<= "+hi+" (sl_len "+base.T+"))"), x.Pos())
		return Val{T: fmt.Sprintf("(mk_slice (sl_ref %s) (+ (sl_off %s) %s) (- %s %s))", base.T, base.T, lo, hi, lo), Typ: x.Type()}
	case *types.Basic:
		if hi == "" {
			hi = "(str.len " + base.T + ")"
		}
		e.safety(fr, "safety.slice", rb, and("(<= 0 "+lo+")", "(<= "+lo+" "+hi+")", "(<= "+hi+" (str.len "+base.T+"))"), x.Pos())
		return Val{T: fmt.Sprintf("(str.substr %s %s (- %s %s))", base.T, lo, hi, lo), Typ: x.Type()}
	case *types.Pointer:
		at := bt.Elem().Underlying().(*types.Array)
		if hi == "" {
			hi = fmt.Sprint(at.Len())
		}
		e.safety(fr, "safety.slice", rb, and("(<= 0 "+lo+")", "(<= "+lo+" "+hi+")", fmt.Sprintf("(<= %s %d)", hi, at.Len())), x.Pos())
		a := e.addrOfPointer(base)
		if len(a.Path) > 0 || a.Ref == "" {
			e.unsupported(fr, "slice of nested array")
			return e.freshVal("slice", x.Type())
		}
		return Val{T: fmt.Sprintf("(mk_slice %s %s (- %s %s))", a.Ref, lo, hi, lo), Typ: x.Type()}
	}
	return e.freshVal("slice", x.Type())
}

func (e *Enc) modAllHeap() func(string) bool {
	return e.modAllHeapFor(true)
}

// checkStoreFrame / checkMapFrame: hooks for per-store frame obligations (C17: a mechanism's
// Execute may only write fresh or context-owned memory).
func (e *Enc) checkStoreFrame(fr *Frame, a *Addr, st *State, rb Term, pos token.Pos) {
	if a.Ref == "" {
		return
	}
	e.writeFrame(fr, "store into "+compShort(a.Comp), a.Ref, nil, st, rb, pos)
}

func (e *Enc) checkMapFrame(fr *Frame, m Val, st *State, rb Term, pos token.Pos) {
	e.writeFrame(fr, "update of a map", m.T, m.Typ, st, rb, pos)
}

// writeFrame: in a function under a `writeframe` contract every heap write must go to memory this
// call allocated itself or to memory the request context owns (ctxOwned). Writes whose target is
// syntactically one of the call's own allocations generate no obligation.
func (e *Enc) writeFrame(fr *Frame, what string, target Term, typ types.Type, st *State, rb Term, pos token.Pos) {
	top := fr.top
	if top == nil || top.contract == nil || !top.contract.WriteFrame {
		return
	}
	if _, isAlloc := e.allocIdx[target]; isAlloc {
		return
	}
	var dis []Term
	for i := range e.allocs {
		if typ != nil && !mayDenote(typ, &e.allocs[i]) {
			continue
		}
		dis = append(dis, e.eqRef(target, i))
	}
	f := e.sc.DeclFun("sp_ctxOwned", []string{"Int"}, "Bool")
	dis = append(dis, app(f, target))
	e.ob(fr, "wframe", e.nextName(fr, "wframe"), rb, or(dis...), what+" that is neither allocated by this call nor owned by the request context", pos)
}

// fnPkgPath: package path of a function, looking through generic instantiation and closures.
func fnPkgPath(fn *ssa.Function) string {
	for fn != nil {
		if fn.Pkg != nil {
			return fn.Pkg.Pkg.Path()
		}
		if o := fn.Origin(); o != nil && o != fn {
			fn = o
			continue
		}
		fn = fn.Parent()
	}
	return ""
}

// effectivelyFinal: free variable k of closure fn is a captured cell that is stored to exactly once
// (its initialisation in the enclosing function) and never inside the closure.
func effectivelyFinal(fn *ssa.Function, k int, binding ssa.Value) (types.Type, bool) {
	if k >= len(fn.FreeVars) {
		return nil, false
	}
	fv := fn.FreeVars[k]
	pt, ok := fv.Type().Underlying().(*types.Pointer)
	if !ok {
		return nil, false
	}
	var storesIn func(f *ssa.Function, v ssa.Value) int
	storesIn = func(f *ssa.Function, v ssa.Value) int {
		n := 0
		refs := v.Referrers()
		if refs == nil {
			return 99
		}
		for _, r := range *refs {
			switch x := r.(type) {
			case *ssa.Store:
				if x.Addr == v {
					n++
				} else {
					return 99
				}
			case *ssa.UnOp, *ssa.DebugRef:
			case *ssa.MakeClosure:
				// captured further: check the nested closure too
				inner := x.Fn.(*ssa.Function)
				for i, b := range x.Bindings {
					if b == v && i < len(inner.FreeVars) {
						n += storesIn(inner, inner.FreeVars[i])
					}
				}
			case *ssa.FieldAddr, *ssa.IndexAddr:
				return 99
			default:
				return 99
			}
		}
		return n
	}
	if storesIn(fn, fv) != 0 {
		return nil, false
	}
	if binding != nil {
		al, ok := binding.(*ssa.Alloc)
		if !ok {
			// a free variable of the enclosing closure passed down
			if pfv, ok := binding.(*ssa.FreeVar); ok {
				_ = pfv
				return pt.Elem(), false
			}
			return nil, false
		}
		if storesIn(al.Parent(), al) != 1 {
			return nil, false
		}
	}
	return pt.Elem(), true
}

// storeAsserts: cut-point assertions `assert at store <field>#k: e` - evaluated in the state right
// before the k-th store (source order) into a field of that name; `stored` denotes the value.
func (e *Enc) storeAsserts(fr *Frame, st0 *ssa.Store, v Val, st *State, rb Term) {
	fa, ok := st0.Addr.(*ssa.FieldAddr)
	if !ok {
		return
	}
	has := false
	for _, ca := range fr.contract.Asserts {
		if ca.Kind == "store" {
			has = true
		}
	}
	if !has {
		return
	}
	fieldName := func(f *ssa.FieldAddr) string {
		pt, ok := f.X.Type().Underlying().(*types.Pointer)
		if !ok {
			return ""
		}
		u, ok := pt.Elem().Underlying().(*types.Struct)
		if !ok {
			return ""
		}
		return u.Field(f.Field).Name()
	}
	name := fieldName(fa)
	for k, ca := range fr.contract.Asserts {
		if ca.Kind != "store" || ca.Callee != name || !e.matchCut(fr.fn, ca, st0) {
			continue
		}
		ord := ca.N
		henv := e.hostEnv(fr)
		henv.vars["stored"] = v
		f, watch := e.evalBoolWatch(henv, ca.Clause.Expr, st, fr.entry, ca.Clause)
		fr.callN[fmt.Sprintf("assertseen:%d", k)]++
		oname := fmt.Sprintf("assert@store.%s#%d", name, ord)
		if c := fr.callN["assertname:"+oname]; c > 0 {
			oname = fmt.Sprintf("%s.%d", oname, c+1)
		}
		fr.callN["assertname:"+fmt.Sprintf("assert@store.%s#%d", name, ord)]++
		o := e.ob(fr, "assert", oname, rb, f, ca.Clause.Src, st0.Pos())
		o.Watch = append(e.paramWatch(fr), watch...)
	}
}

// closureStores counts the stores to a captured variable inside a closure and the closures nested
// in it (99 = the variable's address is used in a way that is not understood).
func closureStores(f *ssa.Function, v ssa.Value) int {
	n := 0
	refs := v.Referrers()
	if refs == nil {
		return 99
	}
	for _, r := range *refs {
		switch x := r.(type) {
		case *ssa.Store:
			if x.Addr == v {
				n++
			} else {
				return 99
			}
		case *ssa.UnOp, *ssa.DebugRef:
		case *ssa.MakeClosure:
			inner := x.Fn.(*ssa.Function)
			for i, b := range x.Bindings {
				if b == v && i < len(inner.FreeVars) {
					n += closureStores(inner, inner.FreeVars[i])
				}
			}
		default:
			return 99
		}
	}
	return n
}
