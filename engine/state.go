package main

// Symbolic heap state: a lazy, persistent map from component name to SMT term.
//
// Components (Burstall-Bornat style):
//   F:<struct type>.<field>   (Array Int τ)            field heap, indexed by object ref
//   C:<type>                  (Array Int τ)            cell heap for pointers to non-struct values
//   E:<elem type>             (Array Int (Array Int τ)) slice/array backing stores, indexed by ref then index
//   MD:<K>|<V>                (Array Int (Array K Bool)) map domains
//   MV:<K>|<V>                (Array Int (Array K V))  map values
//   L:<id>                    τ                        non-escaping local cell
//   $alloc                    (Array Int Bool)         allocated refs
//   $<ghost>                  declared ghost variable
//
// Components are created lazily; a component never mentioned before a havoc is still
// correctly related to its entry value because havoc nodes resolve lazily through prev.

import (
	"fmt"
	"strings"
)

type stateKind int

const (
	stBase stateKind = iota
	stSet
	stHavoc
	stMerge
)

type State struct {
	kind  stateKind
	id    int
	vals  map[string]Term // stSet: the overridden comps; others: cache
	prev  *State
	mod   func(comp string) bool // stHavoc: which comps are havocked
	preds []*State               // stMerge
	conds []Term                 // stMerge: edge conditions (last may be ignored)
	tag   string
	priv  Term // stHavoc: the $priv array at the time of the havoc (refs still private to the caller)
	nAllo int  // stHavoc: number of allocation refs known at that time
}

type CompInfo struct {
	Sort string
}

// Encoder-level component registry (sorts).
type Comps struct {
	sorts map[string]string
}

func (c *Comps) Register(name, sort string) {
	if old, ok := c.sorts[name]; ok && old != sort {
		panic(fmt.Sprintf("component %s registered with sorts %s and %s", name, old, sort))
	}
	c.sorts[name] = sort
}

func (e *Enc) newState(kind stateKind) *State {
	e.stateN++
	return &State{kind: kind, id: e.stateN, vals: map[string]Term{}}
}

func (e *Enc) BaseState(tag string) *State {
	s := e.newState(stBase)
	s.tag = tag
	return s
}

func (e *Enc) Get(s *State, comp string) Term {
	if t, ok := s.vals[comp]; ok {
		return t
	}
	sort, ok := e.comps.sorts[comp]
	if !ok {
		panic("unregistered component " + comp)
	}
	var t Term
	switch s.kind {
	case stBase:
		t = e.sc.Const(comp+"@"+s.tag, sort)
		e.initComp(comp, t)
	case stSet:
		return e.Get(s.prev, comp) // not cached: cheap chain walk
	case stHavoc:
		if s.mod(comp) {
			t = e.sc.Const(fmt.Sprintf("%s@h%d", comp, s.id), sort)
			if comp == "$alloc" {
				// allocation only grows
				p := e.Get(s.prev, comp)
				e.sc.Assert(fmt.Sprintf("(forall ((r Int)) (=> (select %s r) (select %s r)))", p, t))
			}
			e.initComp(comp, t)
			// ghost call logs are append-only
			if strings.HasPrefix(comp, "$") && e.isLogComp(comp) {
				p := e.Get(s.prev, comp)
				if strings.HasSuffix(comp, ".n") {
					e.sc.Assert("(>= " + t + " " + p + ")")
				} else {
					nC := comp[:strings.LastIndex(comp, ".")] + ".n"
					e.comps.Register(nC, "Int")
					pn := e.Get(s.prev, nC)
					e.sc.Assert(fmt.Sprintf("(forall ((k Int)) (=> (< k %s) (= (select %s k) (select %s k))))", pn, t, p))
				}
			}
			// objects allocated by the function under verification that have not been handed out yet
			// (still private) cannot be changed by the callee
			if s.priv != "" && strings.HasPrefix(sort, "(Array Int") && comp != "$alloc" && !strings.HasPrefix(comp, "$") {
				p := e.Get(s.prev, comp)
				for _, r := range e.allocRefs[:min(s.nAllo, len(e.allocRefs))] {
					e.sc.Assert(implies(app("select", s.priv, r), eq(app("select", t, r), app("select", p, r))))
				}
			}
		} else {
			t = e.Get(s.prev, comp)
		}
	case stMerge:
		// resolve in all preds; if all equal, no ite needed
		ts := make([]Term, len(s.preds))
		same := true
		for i, p := range s.preds {
			ts[i] = e.Get(p, comp)
			if ts[i] != ts[0] {
				same = false
			}
		}
		if same {
			t = ts[0]
		} else {
			acc := ts[len(ts)-1]
			for i := len(ts) - 2; i >= 0; i-- {
				acc = ite(s.conds[i], ts[i], acc)
			}
			t = e.sc.Define(fmt.Sprintf("%s@m%d", comp, s.id), sort, acc)
		}
	}
	s.vals[comp] = t
	return t
}

// initComp adds well-formedness facts every version of a component satisfies.
func (e *Enc) initComp(comp string, t Term) {
	if strings.HasPrefix(comp, "G:") {
		if ord, ok := e.w.sentinelOrd(strings.TrimPrefix(comp, "G:")); ok && e.comps.sorts[comp] == "Iface" {
			// errors.New sentinels: distinct, non-nil, of the (unexported) type *errors.errorString
			e.sc.Assert(fmt.Sprintf("(= %s (mk_iface %d (- %d)))", t, e.sorts.TypeIDNamed("*errors.errorString"), 1000000+ord))
			e.trusted["errors.New sentinels are distinct non-nil values (initialised once in the package initialiser)"] = true
		}
	}
	if comp == "$priv" && strings.Contains(t, "@0") || comp == "$priv" && strings.Contains(t, "@ax") {
		e.sc.Assert("(= " + t + " ((as const (Array Int Bool)) false))")
	}
	if strings.HasPrefix(comp, "MD:") {
		// the nil map has an empty domain
		sort := e.comps.sorts[comp]
		inner := strings.TrimSuffix(strings.TrimPrefix(sort, "(Array Int "), ")")
		e.sc.Assert(fmt.Sprintf("(= (select %s 0) ((as const %s) false))", t, inner))
	}
}

func (e *Enc) Set(s *State, comp string, t Term) *State {
	sort := e.comps.sorts[comp]
	t = e.sc.Define(fmt.Sprintf("%s@s", comp), sort, t)
	if s.kind == stSet && len(s.vals) < 8 {
		// small copy-on-write node
		n := e.newState(stSet)
		n.prev = s.prev
		for k, v := range s.vals {
			n.vals[k] = v
		}
		n.vals[comp] = t
		return n
	}
	n := e.newState(stSet)
	n.prev = s
	n.vals[comp] = t
	return n
}

func (e *Enc) Havoc(s *State, mod func(string) bool) *State {
	n := e.newState(stHavoc)
	n.prev = s
	n.mod = func(c string) bool { return c != "$priv" && mod(c) }
	n.priv = e.Get(s, "$priv")
	n.nAllo = len(e.allocRefs)
	return n
}

// HavocLoop: like Havoc, but nothing is private any more afterwards (conservative).
func (e *Enc) HavocLoop(s *State, mod func(string) bool) *State {
	n := e.Havoc(s, mod)
	return e.Set(n, "$priv", "((as const (Array Int Bool)) false)")
}

// Leak marks the references contained in the values as no longer private.
func (e *Enc) Leak(s *State, vals ...Val) *State {
	var refs []Term
	for _, v := range vals {
		refs = e.refsOf(v, refs, 0)
	}
	if len(refs) == 0 {
		return s
	}
	p := e.Get(s, "$priv")
	for _, r := range refs {
		p = app("store", p, r, "false")
	}
	return e.Set(s, "$priv", p)
}

func (e *Enc) Merge(preds []*State, conds []Term) *State {
	if len(preds) == 1 {
		return preds[0]
	}
	allSame := true
	for _, p := range preds {
		if p != preds[0] {
			allSame = false
		}
	}
	if allSame {
		return preds[0]
	}
	n := e.newState(stMerge)
	n.preds = preds
	n.conds = conds
	return n
}

// touchedComps lists the components explicitly changed between base (exclusive) and s.
// Used for frame obligations. Returns (set, havocAll).
func (e *Enc) touchedComps(s *State, base *State, seen map[*State]bool, out map[string]bool) {
	if s == nil || s == base || seen[s] {
		return
	}
	seen[s] = true
	switch s.kind {
	case stSet:
		for k := range s.vals {
			out[k] = true
		}
		e.touchedComps(s.prev, base, seen, out)
	case stHavoc:
		for k := range e.comps.sorts {
			if s.mod(k) {
				out[k] = true
			}
		}
		e.touchedComps(s.prev, base, seen, out)
	case stMerge:
		for _, p := range s.preds {
			e.touchedComps(p, base, seen, out)
		}
	}
}

func (e *Enc) isLogComp(comp string) bool {
	name := strings.TrimPrefix(comp, "$")
	i := strings.LastIndex(name, ".")
	if i < 0 {
		return false
	}
	return e.w.isLogName(name[:i])
}
