package main

// Symbolic heap state: a lazy, persistent map from component name to SMT term.
//
// Components (Burstall-Bornat style):
//   F:<struct type>.<field>   (Array Int τ)            field heap, indexed by object ref
//   C:<type>                  (Array Int τ)            cell heap for pointers to non-struct values
//   E:<elem type>             (Array Int (Array Int τ)) slice/array backing stores, indexed by ref then index
//   MD:<K>|<V>                (Array Int (Array K Bool)) map domains
//   MV:<K>|<V>                (Array Int (Array K V))  map values
//   L:<id>                    τ                        non-escaping local cell
//   $alloc                    (Array Int Bool)         allocated refs
//   $<ghost>                  declared ghost variable
//
// Components are created lazily; a component never mentioned before a havoc is still
// correctly related to its entry value because havoc nodes resolve lazily through prev.

import (
	"fmt"
	"go/types"
	"strings"
)

type stateKind int

const (
	stBase stateKind = iota
	stSet
	stHavoc
	stMerge
	stMix // ghost logs from preds[1] (current), everything else from preds[0] (entry)
)

type State struct {
	kind  stateKind
	id    int
	vals  map[string]Term // stSet: the overridden comps; others: cache
	prev  *State
	mod   func(comp string) bool // stHavoc: which comps are havocked
	preds []*State               // stMerge
	conds []Term                 // stMerge: edge conditions (last may be ignored)
	tag   string
	priv  Term // stHavoc: the $priv array at the time of the havoc (refs still private to the caller)
	nAllo int  // stHavoc: number of allocation refs known at that time
}

type CompInfo struct {
	Sort string
}

// Encoder-level component registry (sorts).
type Comps struct {
	sorts map[string]string
}

func (c *Comps) Register(name, sort string) {
	if old, ok := c.sorts[name]; ok && old != sort {
		panic(fmt.Sprintf("component %s registered with sorts %s and %s", name, old, sort))
	}
	c.sorts[name] = sort
}

func (e *Enc) newState(kind stateKind) *State {
	e.stateN++
	return &State{kind: kind, id: e.stateN, vals: map[string]Term{}}
}

func (e *Enc) BaseState(tag string) *State {
	s := e.newState(stBase)
	s.tag = tag
	return s
}

func (e *Enc) Get(s *State, comp string) Term {
	if t, ok := s.vals[comp]; ok {
		return t
	}
	sort, ok := e.comps.sorts[comp]
	if !ok {
		panic("unregistered component " + comp)
	}
	var t Term
	switch s.kind {
	case stBase:
		t = e.sc.Const(comp+"@"+s.tag, sort)
		e.initComp(comp, t)
	case stSet:
		return e.Get(s.prev, comp) // not cached: cheap chain walk
	case stHavoc:
		if s.mod(comp) {
			t = e.sc.Const(fmt.Sprintf("%s@h%d", comp, s.id), sort)
			if comp == "$alloc" {
				// allocation only grows
				p := e.Get(s.prev, comp)
				e.sc.Assert(fmt.Sprintf("(forall ((r Int)) (=> (select %s r) (select %s r)))", p, t))
			}
			if comp == "$clock" && sort == "Int" {
				// the ghost clock (time.spec) never runs backwards, whoever lets time pass
				e.sc.Assert("(>= " + t + " " + e.Get(s.prev, comp) + ")")
			}
			e.initComp(comp, t)
			// ghost call logs are append-only
			if strings.HasPrefix(comp, "$") && e.isLogComp(comp) {
				p := e.Get(s.prev, comp)
				if strings.HasSuffix(comp, ".n") {
					e.sc.Assert("(>= " + t + " " + p + ")")
				} else {
					nC := comp[:strings.LastIndex(comp, ".")] + ".n"
					e.comps.Register(nC, "Int")
					pn := e.Get(s.prev, nC)
					e.sc.Assert(fmt.Sprintf("(forall ((k Int)) (=> (< k %s) (= (select %s k) (select %s k))))", pn, t, p))
				}
			}
			// objects allocated by the function under verification that are still private cannot be
			// changed by the callee
			if strings.HasPrefix(sort, "(Array Int") && !strings.HasPrefix(comp, "$") {
				var p Term
				for i := 0; i < s.nAllo && i < len(e.allocs); i++ {
					if !allocLivesIn(e.allocs[i].comps, comp) {
						continue
					}
					pv := e.Get(s.prev, e.privComp(i))
					if pv == "false" {
						continue
					}
					if p == "" {
						p = e.Get(s.prev, comp)
					}
					r := e.allocs[i].ref
					e.sc.Assert(implies(pv, eq(app("select", t, r), app("select", p, r))))
				}
			}
		} else {
			t = e.Get(s.prev, comp)
		}
	case stMix:
		if strings.HasPrefix(comp, "$") && e.isLogComp(comp) {
			return e.Get(s.preds[1], comp)
		}
		return e.Get(s.preds[0], comp)
	case stMerge:
		// resolve in all preds; if all equal, no ite needed
		ts := make([]Term, len(s.preds))
		same := true
		for i, p := range s.preds {
			ts[i] = e.Get(p, comp)
			if ts[i] != ts[0] {
				same = false
			}
		}
		if same {
			t = ts[0]
		} else {
			acc := ts[len(ts)-1]
			for i := len(ts) - 2; i >= 0; i-- {
				acc = ite(s.conds[i], ts[i], acc)
			}
			t = e.sc.Define(fmt.Sprintf("%s@m%d", comp, s.id), sort, acc)
		}
	}
	s.vals[comp] = t
	return t
}

// initComp adds well-formedness facts every version of a component satisfies.
func (e *Enc) initComp(comp string, t Term) {
	if strings.HasPrefix(comp, "G:") {
		if ord, ok := e.w.sentinelOrd(strings.TrimPrefix(comp, "G:")); ok && e.comps.sorts[comp] == "Iface" {
			// errors.New sentinels: distinct, non-nil, of the (unexported) type *errors.errorString
			e.sc.Assert(fmt.Sprintf("(= %s (mk_iface %d (- %d)))", t, e.sorts.TypeIDNamed("*errors.errorString"), 1000000+ord))
			e.trusted["errors.New sentinels are distinct non-nil values (initialised once in the package initialiser)"] = true
		}
	}
	if strings.HasPrefix(comp, "$p#") {
		// not yet allocated on this path: not private
		e.sc.Assert(not(t))
	}
	if strings.HasPrefix(comp, "MD:") {
		// the nil map has an empty domain
		sort := e.comps.sorts[comp]
		inner := strings.TrimSuffix(strings.TrimPrefix(sort, "(Array Int "), ")")
		e.sc.Assert(fmt.Sprintf("(= (select %s 0) ((as const %s) false))", t, inner))
	}
}

func (e *Enc) Set(s *State, comp string, t Term) *State {
	sort := e.comps.sorts[comp]
	t = e.sc.Define(fmt.Sprintf("%s@s", comp), sort, t)
	if s.kind == stSet && len(s.vals) < 8 {
		// small copy-on-write node
		n := e.newState(stSet)
		n.prev = s.prev
		for k, v := range s.vals {
			n.vals[k] = v
		}
		n.vals[comp] = t
		return n
	}
	n := e.newState(stSet)
	n.prev = s
	n.vals[comp] = t
	return n
}

func (e *Enc) Havoc(s *State, mod func(string) bool) *State {
	n := e.newState(stHavoc)
	n.prev = s
	n.mod = func(c string) bool { return !strings.HasPrefix(c, "$p#") && mod(c) }
	n.nAllo = len(e.allocs)
	return n
}

// ---------------------------------------------------------------------------
// Privacy of fresh allocations.
//
// Every heap allocation made by the function under verification (or an inlined callee) has a
// Boolean state component "$p#<i>": the object is still private, i.e. no reference to it has been
// handed to code we do not see (argument of a non-inlined call, stored into an object that is
// not private). A callee cannot change a private object, so havocs keep its contents.
// Static types prune which references can denote which allocation.

type allocInfo struct {
	ref   Term
	typ   types.Type // static type of the reference (pointer/map/slice/func type)
	comps []string   // components its contents live in (names, or prefixes ending in ".")
}

type typedRef struct {
	t   Term
	typ types.Type // nil: unknown (interface payload)
}

func (e *Enc) privComp(i int) string { return fmt.Sprintf("$p#%d", i) }

// mayDenote: can a reference of static type t denote allocation a?
func mayDenote(t types.Type, a *allocInfo) bool {
	if t == nil || a.typ == nil {
		return true
	}
	return types.Identical(t.Underlying(), a.typ.Underlying()) || types.Identical(t, a.typ)
}

// eqRef compares a reference term with an allocation's reference, using that distinct allocations
// are distinct.
func (e *Enc) eqRef(x Term, i int) Term {
	r := e.allocs[i].ref
	if x == r {
		return "true"
	}
	if _, isAlloc := e.allocIdx[x]; isAlloc {
		return "false"
	}
	if x == "0" {
		return "false"
	}
	return eq(x, r)
}

// HavocLoop: like Havoc, but nothing is private any more afterwards (conservative).
func (e *Enc) HavocLoop(s *State, mod func(string) bool) *State {
	n := e.Havoc(s, mod)
	for i := range e.allocs {
		n = e.Set(n, e.privComp(i), "false")
	}
	return n
}

// Leak: the references in the values are handed out; they, and every allocation stored (directly or
// transitively) into them, stop being private.
func (e *Enc) Leak(s *State, vals ...Val) *State {
	var refs []typedRef
	for _, v := range vals {
		refs = e.typedRefsOf(v, refs, 0)
	}
	return e.leakRefs(s, refs)
}

func (e *Enc) leakRefs(s *State, refs []typedRef) *State {
	if len(refs) == 0 || len(e.allocs) == 0 {
		return s
	}
	direct := make([]Term, len(e.allocs))
	for i := range e.allocs {
		var dis []Term
		for _, x := range refs {
			if mayDenote(x.typ, &e.allocs[i]) {
				dis = append(dis, e.eqRef(x.t, i))
			}
		}
		direct[i] = or(dis...)
	}
	for i := range e.allocs {
		hit := []Term{direct[i]}
		for _, j := range e.containers(i) {
			hit = append(hit, direct[j])
		}
		h := or(hit...)
		if h == "false" {
			continue
		}
		s = e.Set(s, e.privComp(i), and(e.Get(s, e.privComp(i)), not(h)))
	}
	return s
}

// containers: allocations that (transitively) contain allocation i (static, path-insensitive edges)
func (e *Enc) containers(i int) []int {
	seen := map[int]bool{i: true}
	var out []int
	stack := []int{i}
	for len(stack) > 0 {
		k := stack[len(stack)-1]
		stack = stack[:len(stack)-1]
		for _, j := range e.contEdges[k] {
			if !seen[j] {
				seen[j] = true
				out = append(out, j)
				stack = append(stack, j)
			}
		}
	}
	return out
}

// Contain: the references in v are stored into the object `target`. If both are known allocations
// the stored one stays private as long as the container is; in every other case it is leaked.
func (e *Enc) Contain(s *State, target Term, v Val) *State {
	refs := e.typedRefsOf(v, nil, 0)
	if len(refs) == 0 || len(e.allocs) == 0 {
		return s
	}
	j, targetIsAlloc := e.allocIdx[target]
	for _, x := range refs {
		i, isAlloc := e.allocIdx[x.t]
		if isAlloc && targetIsAlloc && i != j {
			if e.contEdges == nil {
				e.contEdges = map[int][]int{}
			}
			e.contEdges[i] = append(e.contEdges[i], j)
			s = e.Set(s, e.privComp(i), and(e.Get(s, e.privComp(i)), e.Get(s, e.privComp(j))))
			continue
		}
		// unknown relation: treat as handed out
		s = e.leakRefs(s, []typedRef{x})
	}
	return s
}

// assumeNotPrivate: references read from the heap (or returned by a callee) never denote a private
// allocation, because a reference stops being private the moment it is stored or passed out.
func (e *Enc) assumeNotPrivate(v Val, st *State) { e.assumeNotPrivateFrom(v, st, "") }

// assumeNotPrivateFrom: v was loaded from the object `base`; unless that object is itself a private
// allocation (which may hold private references), v denotes no private allocation.
func (e *Enc) assumeNotPrivateFrom(v Val, st *State, base Term) {
	if len(e.allocs) == 0 {
		return
	}
	basePriv := "false"
	if base != "" && base != "0" {
		if j, ok := e.allocIdx[base]; ok {
			basePriv = e.Get(st, e.privComp(j))
		} else if isAtom(base) && (strings.HasPrefix(base, "p_") || strings.HasPrefix(base, "fv_")) {
			basePriv = "false" // parameters are never private allocations of this function
		} else {
			var dis []Term
			for j := range e.allocs {
				pj := e.Get(st, e.privComp(j))
				if pj != "false" {
					dis = append(dis, and(pj, eq(base, e.allocs[j].ref)))
				}
			}
			basePriv = or(dis...)
		}
	}
	if basePriv == "true" {
		return
	}
	for _, x := range e.typedRefsOf(v, nil, 0) {
		if _, isAlloc := e.allocIdx[x.t]; isAlloc || x.t == "0" {
			continue
		}
		for i := range e.allocs {
			if !mayDenote(x.typ, &e.allocs[i]) {
				continue
			}
			p := e.Get(st, e.privComp(i))
			if p == "false" {
				continue
			}
			e.sc.Assert(implies(and(p, not(basePriv)), not(eq(x.t, e.allocs[i].ref))))
		}
	}
}

func (e *Enc) Merge(preds []*State, conds []Term) *State {
	if len(preds) == 1 {
		return preds[0]
	}
	allSame := true
	for _, p := range preds {
		if p != preds[0] {
			allSame = false
		}
	}
	if allSame {
		return preds[0]
	}
	n := e.newState(stMerge)
	n.preds = preds
	n.conds = conds
	return n
}

// touchedComps lists the components explicitly changed between base (exclusive) and s.
// Used for frame obligations. Returns (set, havocAll).
func (e *Enc) touchedComps(s *State, base *State, seen map[*State]bool, out map[string]bool) {
	if s == nil || s == base || seen[s] {
		return
	}
	seen[s] = true
	switch s.kind {
	case stSet:
		for k := range s.vals {
			out[k] = true
		}
		e.touchedComps(s.prev, base, seen, out)
	case stHavoc:
		for k := range e.comps.sorts {
			if s.mod(k) {
				out[k] = true
			}
		}
		e.touchedComps(s.prev, base, seen, out)
	case stMerge:
		for _, p := range s.preds {
			e.touchedComps(p, base, seen, out)
		}
	}
}

func (e *Enc) isLogComp(comp string) bool {
	name := strings.TrimPrefix(comp, "$")
	i := strings.LastIndex(name, ".")
	if i < 0 {
		return false
	}
	return e.w.isLogName(name[:i])
}

func allocLivesIn(filters []string, comp string) bool {
	if filters == nil {
		return true
	}
	for _, f := range filters {
		if f == comp || (strings.HasSuffix(f, ".") && strings.HasPrefix(comp, f)) {
			return true
		}
	}
	return false
}

// Mix: the entry heap seen together with the current ghost logs (contract builtin before(e)).
func (e *Enc) Mix(old, cur *State) *State {
	n := e.newState(stMix)
	n.preds = []*State{old, cur}
	return n
}
