package main

import (
	"bufio"
	"encoding/json"
	"fmt"
	"os"
	"path/filepath"
	"sort"
	"strings"
	"time"
)

type Report struct {
	Prop, Tier  string
	Seed        int
	Verif, Repo string
	Results     []*FuncResult
	Verdicts    []*Verdict
	LoadS, GenS float64
	T0          time.Time
	Verbose     bool
	NoClaims    bool
	WriteClaims bool
	World       *World
	EngineErr   bool
	OutDir      string
	Extra       *ExtraResult // bounded stand-ins etc.
}

type KnownFinding struct {
	Property   string `json:"property"`
	Obligation string `json:"obligation"`
	What       string `json:"what"`
	Status     string `json:"status"` // open | fixed
	Commit     string `json:"commit,omitempty"`
	Input      string `json:"input,omitempty"`
}

type KnownFindings struct {
	Findings []KnownFinding `json:"findings"`
}

func loadKnown(verif string) KnownFindings {
	var k KnownFindings
	b, err := os.ReadFile(filepath.Join(verif, "known_findings.json"))
	if err == nil {
		_ = json.Unmarshal(b, &k)
	}
	return k
}

// claims: exact obligation names, or "<func>/<kind>*" wildcards.
type Claims struct {
	exact map[string]bool
	wild  []string
	order []string
}

func loadClaims(path string) *Claims {
	c := &Claims{exact: map[string]bool{}}
	f, err := os.Open(path)
	if err != nil {
		return c
	}
	defer f.Close()
	sc := bufio.NewScanner(f)
	for sc.Scan() {
		l := strings.TrimSpace(sc.Text())
		if l == "" || strings.HasPrefix(l, "#") {
			continue
		}
		if strings.HasPrefix(l, "?") {
			// optional claim (alias of a safety obligation): checked when generated, not missed when gone
			c.exact[strings.TrimPrefix(l, "?")] = true
			continue
		}
		c.order = append(c.order, l)
		if strings.HasSuffix(l, "*") {
			c.wild = append(c.wild, strings.TrimSuffix(l, "*"))
		} else {
			c.exact[l] = true
		}
	}
	return c
}

func (c *Claims) Has(name string) bool {
	if c.exact[name] {
		return true
	}
	for _, w := range c.wild {
		if strings.HasPrefix(name, w) {
			return true
		}
	}
	return false
}

type obEvidence struct {
	Name   string `json:"obligation"`
	Kind   string `json:"kind"`
	Status string `json:"verdict"`
	Solver string `json:"solver,omitempty"`
	Ms     int64  `json:"ms"`
	Bytes  int    `json:"smt_bytes"`
	Src    string `json:"clause,omitempty"`
	Pos    string `json:"pos,omitempty"`
}

func (r *Report) Finish() int {
	claims := loadClaims(filepath.Join(r.Verif, "contracts", "claims", r.Prop+".txt"))
	known := loadKnown(r.Verif)
	byName := map[string]*Verdict{}
	for _, v := range r.Verdicts {
		if old, dup := byName[v.Ob.Name]; dup {
			_ = old
			fmt.Fprintf(os.Stderr, "ENGINE-ERROR: duplicate obligation name %s\n", v.Ob.Name)
			r.EngineErr = true
		}
		byName[v.Ob.Name] = v
	}
	if r.WriteClaims {
		var names []string
		for _, v := range r.Verdicts {
			if v.Status == "discharged" && v.Ms < 3000 && !strings.HasPrefix(v.Ob.Kind, "safety.") && v.Ob.Kind != "wframe" && v.Ob.Kind != "consistency" && v.Ob.Kind != "frame" && v.Ob.Kind != "pre" {
				names = append(names, v.Ob.Name)
			}
		}
		// obligations that only exist when something is wrong (a call inside a map-range loop,
		// a safety condition of a function claimed panic-free) are claimed per function by wildcard
		for _, fr := range r.Results {
			if fr.Stale || fr.Contract == nil {
				continue
			}
			if fr.Err == "" {
				// consistency of the assumptions at every return (number of returns may change)
				pre := shortOfKey(fr.Key) + "/"
				if fr.Contract.SubtypeOf != "" {
					pre += "subtype@" + shortKey(fr.Contract.SubtypeOf) + "/"
				}
				names = append(names, pre+"consist#*")
			}
			if fr.Err == "" {
				// preconditions of callees: one obligation per call site and clause. Call sites come and go
				// with harmless edits (a removed call cannot violate anything, a new one must discharge), so
				// they are claimed per callee by wildcard when every one of them discharges now
				pre := shortOfKey(fr.Key) + "/"
				if fr.Contract.SubtypeOf != "" {
					pre += "subtype@" + shortKey(fr.Contract.SubtypeOf) + "/"
				}
				byCallee := map[string]bool{}
				for _, v := range r.Verdicts {
					if v.Ob.Kind != "pre" || !strings.HasPrefix(v.Ob.Name, pre+"pre@") {
						continue
					}
					rest := strings.TrimPrefix(v.Ob.Name, pre)
					callee, _, _ := strings.Cut(rest, "#")
					ok, seen := byCallee[callee]
					if !seen {
						ok = true
					}
					byCallee[callee] = ok && v.Status == "discharged" && v.Ms < 3000
				}
				allPre := true
				for _, ok := range byCallee {
					allPre = allPre && ok
				}
				if allPre {
					// every precondition at every call site discharges now (or there is none): a call
					// added later to any callee with a precondition must discharge it as well
					names = append(names, pre+"pre@*")
				}
				for _, callee := range sortedKeys(byCallee) {
					if allPre {
						break
					}
					if byCallee[callee] {
						names = append(names, pre+callee+"#*")
					} else {
						for _, v := range r.Verdicts {
							if v.Ob.Kind == "pre" && strings.HasPrefix(v.Ob.Name, pre+callee+"#") && v.Status == "discharged" && v.Ms < 3000 {
								names = append(names, "?"+v.Ob.Name)
							}
						}
					}
				}
			}
			if fr.Contract.ModSet && fr.Err == "" {
				// frame obligations exist per heap component the function touches: a later edit that
				// touches a further component must discharge its obligation too (wildcard), and one that
				// stops touching a component is no alarm
				pre := shortOfKey(fr.Key) + "/"
				if fr.Contract.SubtypeOf != "" {
					pre += "subtype@" + shortKey(fr.Contract.SubtypeOf) + "/"
				}
				clean := true
				for _, v := range r.Verdicts {
					if v.Ob.Kind == "frame" && strings.HasPrefix(v.Ob.Name, pre+"frame#") && (v.Status != "discharged" || v.Ms >= 3000) {
						clean = false
					}
				}
				if clean {
					names = append(names, pre+"frame#*")
				} else {
					for _, v := range r.Verdicts {
						if v.Ob.Kind == "frame" && strings.HasPrefix(v.Ob.Name, pre+"frame#") && v.Status == "discharged" && v.Ms < 3000 {
							names = append(names, "?"+v.Ob.Name)
						}
					}
				}
			}
			if fr.Contract.WriteFrame {
				// claim "no write outside fresh/context memory" only for functions that are clean now
				clean := true
				pre := shortOfKey(fr.Key) + "/"
				for _, v := range r.Verdicts {
					if v.Ob.Kind == "wframe" && strings.HasPrefix(v.Ob.Name, pre) && v.Status != "discharged" {
						clean = false
					}
				}
				if clean && fr.Err == "" {
					names = append(names, pre+"wframe#*")
				}
			}
			if fr.Contract.Safety && fr.Err == "" {
				// per function and kind of run-time panic: claimed only where every obligation of that kind
				// discharges now (a kind without any obligation is claimed too: a later edit that
				// introduces one must discharge it)
				pre := shortOfKey(fr.Key) + "/"
				for _, kind := range []string{"safety.index", "safety.slice", "safety.assert", "safety.panic", "safety.mapnil", "safety.div", "safety.nil", "safety.nilsignal", "safety.nilopt", "safety.termination"} {
					clean := true
					for _, v := range r.Verdicts {
						if v.Ob.Kind == kind && strings.HasPrefix(v.Ob.Name, pre) && (v.Status != "discharged" || v.Ms >= 3000) {
							clean = false
						}
					}
					if clean {
						names = append(names, pre+kind+"#*")
					} else {
						// mixed: the obligations of this kind that discharge now are claimed one by one under
						// their position-independent alias
						for _, v := range r.Verdicts {
							if v.Ob.Kind == kind && strings.HasPrefix(v.Ob.Name, pre) && v.Status == "discharged" && v.Ms < 3000 && v.Ob.Alt != "" {
								names = append(names, "?"+v.Ob.Alt)
							}
						}
					}
				}
			}
			if len(fr.Contract.NoMapRange) > 0 {
				pre := shortOfKey(fr.Key) + "/"
				if fr.Contract.SubtypeOf != "" {
					pre += "subtype@" + shortKey(fr.Contract.SubtypeOf) + "/"
				}
				names = append(names, pre+"maprange@*")
			}
		}
		sort.Strings(names)
		os.MkdirAll(filepath.Join(r.Verif, "contracts", "claims"), 0o755)
		os.WriteFile(filepath.Join(r.Verif, "contracts", "claims", r.Prop+".txt"), []byte(strings.Join(names, "\n")+"\n"), 0o644)
		claims = loadClaims(filepath.Join(r.Verif, "contracts", "claims", r.Prop+".txt"))
	}
	staleFuncs := map[string]bool{}
	for _, fr := range r.Results {
		if fr.Stale {
			staleFuncs[fr.Key] = true
		}
	}
	var violations []string
	var knownLines []string
	nClaimed, nDischarged := 0, 0
	notAttempted := 0
	var undecided []string
	var evObs []obEvidence
	bySolver := map[string]int{}
	var solverMs int64
	replayDir := filepath.Join(r.OutDir, "replay")
	isKnown := func(name string) *KnownFinding {
		for i := range known.Findings {
			k := &known.Findings[i]
			if k.Property == r.Prop && k.Status == "open" && k.Obligation == name {
				return k
			}
		}
		return nil
	}
	knownReported := []string{}
	for _, v := range r.Verdicts {
		name := v.Ob.Name
		claimed := claims.Has(name) || (v.Ob.Alt != "" && claims.Has(v.Ob.Alt)) || r.NoClaims
		for _, run := range v.Runs {
			solverMs += run.Ms
		}
		if v.Status == "engine-error" {
			fmt.Fprintf(os.Stderr, "ENGINE-ERROR: solvers disagree on / all reject %s (%s)\n", name, v.SMTPath)
			for _, run := range v.Runs {
				fmt.Fprintf(os.Stderr, "   %s: %s %.200s\n", run.Solver, run.Result, strings.ReplaceAll(run.Output, "\n", " "))
			}
			r.EngineErr = true
			continue
		}
		if r.Verbose {
			fmt.Printf("  %-11s %-8s %5dms %s\n", v.Status, v.Solver, v.Ms, name)
		}
		kf := isKnown(name)
		if kf != nil {
			if v.Status != "discharged" {
				knownLines = append(knownLines, fmt.Sprintf("KNOWN-FINDING: property=%s %s [%s]", r.Prop, kf.What, name))
				knownReported = append(knownReported, name)
			} else {
				fmt.Printf("NOTE: known finding %s no longer fails (obligation discharged)\n", name)
			}
			evObs = append(evObs, obEvidence{name, v.Ob.Kind, "known-finding:" + v.Status, v.Solver, v.Ms, v.SMTBytes, v.Ob.Src, relPos(v.Ob.Pos, r.Repo)})
			continue
		}
		if !claimed {
			if v.Status == "not-attempted" {
				notAttempted++
				continue
			}
			if v.Status != "discharged" {
				undecided = append(undecided, name+" ("+v.Status+")")
				if r.Verbose {
					fmt.Printf("UNDECIDED %s (%s) %s\n", name, v.Status, v.Ob.Src)
				}
			}
			continue
		}
		nClaimed++
		evObs = append(evObs, obEvidence{name, v.Ob.Kind, v.Status, v.Solver, v.Ms, v.SMTBytes, v.Ob.Src, relPos(v.Ob.Pos, r.Repo)})
		if v.Status == "discharged" {
			nDischarged++
			bySolver[v.Solver]++
			continue
		}
		// violation
		path, reproduced := r.writeReplay(replayDir, v)
		line := fmt.Sprintf("VIOLATION property=%s replay=%s", r.Prop, path)
		if !reproduced {
			line += " no-failing-input-found"
		}
		violations = append(violations, line)
		fmt.Printf("FAILED-OBLIGATION %s [%s] clause: %s  at %s\n", name, v.Status, v.Ob.Src, v.Ob.Pos)
	}
	// claimed obligations that were not generated
	for _, c := range claims.order {
		if strings.HasSuffix(c, "*") {
			continue
		}
		if _, ok := byName[c]; ok {
			continue
		}
		stale := false
		for k := range staleFuncs {
			if strings.HasPrefix(c, shortOfKey(k)+"/") {
				stale = true
			}
		}
		if stale {
			fmt.Printf("STALE-CLAIM %s (function no longer exists)\n", c)
			continue
		}
		if r.hasOnlyFilter() {
			continue
		}
		nClaimed++
		path := r.writeMissing(replayDir, c)
		violations = append(violations, fmt.Sprintf("VIOLATION property=%s replay=%s no-failing-input-found", r.Prop, path))
		fmt.Printf("MISSING-OBLIGATION %s (claimed, but no longer generated from the current source)\n", c)
	}
	if r.Extra != nil {
		violations = append(violations, r.Extra.Violations...)
		knownLines = append(knownLines, r.Extra.Known...)
	}
	// evidence
	var funcs, inlined, trusted, havocked, unsupp, efffree []string
	setI, setT, setH, setU, setE, setM := map[string]bool{}, map[string]bool{}, map[string]bool{}, map[string]bool{}, map[string]bool{}, map[string]bool{}
	for _, fr := range r.Results {
		if fr.Stale {
			continue
		}
		funcs = append(funcs, shortOfKey(fr.Key))
		for _, x := range fr.Inlined {
			setI[x] = true
		}
		for _, x := range fr.Trusted {
			setT[x] = true
		}
		for _, x := range fr.Havocked {
			setH[x] = true
		}
		for _, x := range fr.Unsupp {
			setU[x] = true
		}
		for _, x := range fr.EffFree {
			setE[x] = true
		}
		for _, x := range fr.Immut {
			setM[compShort(x)] = true
		}
	}
	inlined, trusted, havocked, unsupp, efffree = sortedKeys(setI), sortedKeys(setT), sortedKeys(setH), sortedKeys(setU), sortedKeys(setE)
	samples := []any{}
	for i, o := range evObs {
		if i%(len(evObs)/6+1) == (r.Seed%(len(evObs)/6+1)) && len(samples) < 8 {
			samples = append(samples, o)
		}
	}
	if len(samples) == 0 && len(evObs) > 0 {
		samples = append(samples, evObs[0])
	}
	level := "proof"
	cov := map[string]any{
		"obligations":                 nClaimed,
		"discharged":                  nDischarged,
		"checker_cmd":                 fmt.Sprintf("bin/check %s --tier %s", r.Prop, r.Tier),
		"trusted_base":                append(trusted, prefixAll("effect-free (result unconstrained, no heap effect): ", efffree)...),
		"functions_under_contract":    funcs,
		"functions_inlined":           inlined,
		"calls_havocked_without_spec": havocked,
		"unsupported_constructs":      unsupp,
		"undecided_unclaimed":         undecided,
		"fields_treated_immutable":    sortedKeys(setM),
		"by_solver":                   bySolver,
		"solver_ms_total":             solverMs,
		"obligation_list":             evObs,
		"samples":                     samples,
		"known_findings_reported":     knownReported,
		"load_s":                      round1(r.LoadS),
		"vcgen_s":                     round1(r.GenS),
		"solvers":                     []string{"z3 4.8.12", "z3 5.1.0 (z3-new)", "cvc5 1.0"},
		"generated_obligations_total": len(r.Verdicts),
		"unclaimed_not_attempted":     notAttempted,
	}
	assumptions := []string{
		"govc (this VC generator) is sound for the SSA subset it translates; unsupported constructs are over-approximated (unconstrained values / havocked heap) and listed under unsupported_constructs",
		"integers are mathematical (SMT Int); overflow is only checked where a function's contract enables safety.overflow",
		"slices are modelled without capacity aliasing: append returns a fresh backing store",
		"calls without contract/spec havoc every heap component; calls to external functions whose arguments are all pure values have no heap effect",
		"every entry of trusted_base (specs of std/third-party functions, spec functions and their axioms) is assumed, not proved",
		"termination is not proved",
		"fields_treated_immutable: unexported in-repo struct fields with no store outside the construction of a fresh object (whole-program scan on every run) keep their value across calls; a store through the constructing function's own local after publication is not detected; cell heaps (C:<type>) are likewise kept across in-repo calls when no in-repo code stores through a plain pointer of that type (stores to a function's own or captured variables are not counted)",
	}
	if r.Extra != nil {
		for k, v := range r.Extra.Coverage {
			cov[k] = v
		}
		assumptions = append(assumptions, r.Extra.Assumptions...)
		if r.Extra.Level != "" {
			level = r.Extra.Level
		}
	}
	if level != "proof" {
		cov["explanation"] = r.Extra.Explanation
	}
	ev := map[string]any{
		"property_id": r.Prop,
		"tier":        r.Tier,
		"seed":        r.Seed,
		"level":       level,
		"coverage":    cov,
		"assumptions": assumptions,
		"wall_s":      round1(time.Since(r.T0).Seconds()),
		"violations":  len(violations),
	}
	os.MkdirAll(filepath.Join(r.Verif, "evidence"), 0o755)
	b, _ := json.MarshalIndent(ev, "", " ")
	if !r.hasOnlyFilter() {
		os.WriteFile(filepath.Join(r.Verif, "evidence", r.Prop+".json"), b, 0o644)
	}
	for _, l := range knownLines {
		fmt.Println(l)
	}
	fmt.Printf("SUMMARY property=%s tier=%s functions=%d generated=%d claimed=%d discharged=%d undecided_unclaimed=%d violations=%d wall=%.1fs (load %.1fs, vcgen %.1fs)\n",
		r.Prop, r.Tier, len(funcs), len(r.Verdicts), nClaimed, nDischarged, len(undecided), len(violations), time.Since(r.T0).Seconds(), r.LoadS, r.GenS)
	if r.EngineErr {
		fmt.Println("ENGINE-ERROR (see stderr)")
		return 2
	}
	if nClaimed == 0 && !r.NoClaims && (r.Extra == nil || !r.Extra.Standalone) {
		fmt.Println("ENGINE-ERROR: no claimed obligations were checked (vacuous run)")
		return 2
	}
	if len(violations) > 0 {
		for _, l := range violations {
			fmt.Println(l)
		}
		return 1
	}
	return 0
}

func (r *Report) hasOnlyFilter() bool {
	for i, a := range os.Args {
		if (a == "-only" || a == "--only") && i+1 < len(os.Args) && os.Args[i+1] != "" {
			return true
		}
		if strings.HasPrefix(a, "-only=") || strings.HasPrefix(a, "--only=") {
			return true
		}
	}
	return false
}

func prefixAll(p string, xs []string) []string {
	var out []string
	for _, x := range xs {
		out = append(out, p+x)
	}
	return out
}

func round1(f float64) float64 { return float64(int(f*10+0.5)) / 10 }

func relPos(p, repo string) string {
	return strings.TrimPrefix(p, repo+"/")
}

func shortOfKey(k string) string {
	k = strings.ReplaceAll(k, "github.com/dadrus/heimdall/internal/", "")
	k = strings.ReplaceAll(k, "github.com/dadrus/heimdall/", "")
	return k
}

type replayFile struct {
	Property   string            `json:"property"`
	Obligation string            `json:"obligation"`
	Kind       string            `json:"kind"`
	Clause     string            `json:"clause"`
	Pos        string            `json:"source_position"`
	Status     string            `json:"status"`
	SMT        string            `json:"smt_script"`
	Runs       []SolverRun       `json:"solver_runs"`
	Model      string            `json:"model,omitempty"`
	Values     map[string]string `json:"counterexample,omitempty"`
	Replay     any               `json:"replay_on_real_code,omitempty"`
	Note       string            `json:"note"`
}

func (r *Report) writeReplay(dir string, v *Verdict) (string, bool) {
	os.MkdirAll(dir, 0o755)
	rf := replayFile{Property: r.Prop, Obligation: v.Ob.Name, Kind: v.Ob.Kind, Clause: v.Ob.Src, Pos: v.Ob.Pos, Status: v.Status,
		SMT: v.SMTPath, Runs: v.Runs, Model: v.Model, Values: v.Values}
	reproduced := false
	if v.Status != "discharged" {
		res := TryReplay(r, v)
		rf.Replay = res
		if res != nil && res.Reproduced {
			reproduced = true
		}
	}
	if reproduced {
		rf.Note = "the solver's counterexample was replayed against the real code and reproduced the violation of the clause"
	} else if v.Status == "failed" {
		rf.Note = "obligation failed (solver found a counterexample in the abstraction); no concrete failing input was reproduced on the real code"
	} else {
		rf.Note = "obligation is claimed (it discharges on the unchanged tree) but could not be discharged now; no counterexample available"
	}
	p := filepath.Join(dir, sanitizeFile(v.Ob.Name)+".json")
	b, _ := json.MarshalIndent(rf, "", " ")
	os.WriteFile(p, b, 0o644)
	return p, reproduced
}

func (r *Report) writeMissing(dir, name string) string {
	os.MkdirAll(dir, 0o755)
	rf := replayFile{Property: r.Prop, Obligation: name, Status: "missing",
		Note: "this obligation is claimed (generated and discharged on the unchanged tree) but the current source no longer generates it: the contract clause, call site or loop it was attached to is gone"}
	p := filepath.Join(dir, sanitizeFile(name)+".json")
	b, _ := json.MarshalIndent(rf, "", " ")
	os.WriteFile(p, b, 0o644)
	return p
}

// ExtraResult carries results of bounded stand-ins that accompany the proof obligations.
type ExtraResult struct {
	Violations  []string
	Known       []string
	Coverage    map[string]any
	Assumptions []string
	Level       string
	Explanation string
	Standalone  bool
}

type ReplayResult struct {
	Reproduced bool   `json:"reproduced"`
	Cmd        string `json:"cmd,omitempty"`
	Output     string `json:"output,omitempty"`
	TestFile   string `json:"test_file,omitempty"`
	Inputs     any    `json:"inputs,omitempty"`
	Skipped    string `json:"skipped,omitempty"`
}

// TryReplay is filled in by replay.go (per obligation family).
var replayers []func(r *Report, v *Verdict) *ReplayResult

func TryReplay(r *Report, v *Verdict) *ReplayResult {
	for _, f := range replayers {
		if res := f(r, v); res != nil {
			return res
		}
	}
	return &ReplayResult{Skipped: "no replay template for this obligation family"}
}
