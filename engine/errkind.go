package main

import (
	"fmt"
	"go/ast"
	"go/types"
	"sort"
	"strings"

	"golang.org/x/tools/go/ssa"
)

// Error-kind sweep (zero annotation): no function statically reachable from the roots returns an
// error that matches the configured sentinel (errors.Is), except the functions on the allow list
// (the only places that are meant to produce that kind). Every function of the cone that returns an
// error gets the synthesized postcondition
//
//	!Is(retK, <sentinel>)
//
// which is verified against its body; at its call sites (when the call is neither inlined nor
// covered by a stronger hand-written contract) the same fact is assumed - assume/guarantee over the
// cone. Interface calls are covered when every in-repo implementation is in the cone and not
// allow-listed. Errors coming back from functions outside the heimdall module are assumed not to
// match heimdall's sentinels unless the call is handed an error, a function value or an in-repo
// implementation of an interface (trusted assumption, listed in the evidence).
type ErrKind struct {
	Sentinel string
	Allow    []string
	Safe     map[*ssa.Function]bool // cone members carrying the synthesized postcondition
	InCone   map[*ssa.Function]bool
	expr     CExpr
	ifaceOK  map[string]bool
}

func errResultIdx(sig *types.Signature) []int {
	var out []int
	for i := 0; i < sig.Results().Len(); i++ {
		if isErrorType(sig.Results().At(i).Type()) {
			out = append(out, i)
		}
	}
	return out
}

func isErrorType(t types.Type) bool {
	return types.Identical(t, types.Universe.Lookup("error").Type())
}

func (ek *ErrKind) allowed(key string) bool {
	for _, a := range ek.Allow {
		if strings.Contains(key, a) {
			return true
		}
	}
	return false
}

func (w *World) errKindSweep(cts []*Contract, pc *propConfig, prop, only string) []*Contract {
	ek := &ErrKind{Sentinel: pc.Sentinel, Allow: pc.Allow, Safe: map[*ssa.Function]bool{}, InCone: map[*ssa.Function]bool{}, ifaceOK: map[string]bool{}}
	w.errKind = ek
	w.coneAllIfaces = true
	have := map[string]*Contract{}
	for _, c := range cts {
		have[c.Key] = c
	}
	excl := func(path string) bool {
		for _, x := range append([]string{"/mocks", "/testsupport"}, pc.Exclude...) {
			if strings.Contains(path, x) {
				return true
			}
		}
		return false
	}
	for _, c := range w.coneContracts(w.rootsByPattern(pc.Roots), excl, prop, func(c *Contract) {}) {
		fn := w.funcs[c.Key]
		if fn == nil {
			continue
		}
		ek.InCone[fn] = true
		idx := errResultIdx(fn.Signature)
		if len(idx) == 0 || ek.allowed(c.Key) {
			continue
		}
		ek.Safe[fn] = true
		var cls []Clause
		for _, i := range idx {
			src := fmt.Sprintf("!Is(ret%d, %s)", i, ek.Sentinel)
			ex, err := ParseCExpr(src)
			if err != nil {
				panic(err)
			}
			cls = append(cls, Clause{Expr: ex, Src: src, File: "(synthesized: error-kind sweep)", Label: "errkind"})
		}
		if only != "" && !strings.Contains(c.Key, only) {
			continue
		}
		if h := have[c.Key]; h != nil {
			// already selected for this property with a hand-written contract: one more postcondition
			h.Ensures = append(h.Ensures, cls...)
			continue
		}
		if own := w.ct.Funcs[c.Key]; own != nil && own.Kind == "func" && !own.Trusted {
			// under contract for another property: verify the synthesized clause in the setting of
			// that contract (requires, loop invariants), callers keep using the original
			nc := *own
			nc.Props = []string{prop}
			nc.Ensures = cls
			nc.Asserts = nil
			nc.CallSites = nil
			nc.NoMapRange = nil
			nc.Watch = nil
			nc.File = "(synthesized: error-kind sweep)"
			cts = append(cts, &nc)
			continue
		}
		c.Ensures = cls
		cts = append(cts, c)
	}
	return cts
}

// errKindAssume: after a call that was not inlined, what the sweep guarantees (or the trusted
// assumption about foreign code says) about the error results.
func (e *Enc) errKindAssume(key string, invoke bool, c *ssa.CallCommon, args []Val, res Val, resType types.Type, st *State, rb Term) {
	ek := e.w.errKind
	if ek == nil {
		return
	}
	var errs []Val
	if res.Tuple != nil {
		for _, r := range res.Tuple {
			if r.Typ != nil && isErrorType(r.Typ) {
				errs = append(errs, r)
			}
		}
	} else if resType != nil && isErrorType(resType) {
		errs = append(errs, res)
	}
	if len(errs) == 0 {
		return
	}
	ok := false
	switch {
	case invoke:
		ok = e.errKindIfaceSafe(key, c)
	case strings.Contains(key, modulePath):
		fn := e.w.funcs[key]
		ok = fn != nil && ek.Safe[fn]
	default:
		ok = e.errKindForeign(key, c, args)
	}
	if !ok {
		return
	}
	e.errKindAssert(res, resType, st, rb)
}

func (e *Enc) errKindAssert(res Val, resType types.Type, st *State, rb Term) {
	ek := e.w.errKind
	var errs []Val
	if res.Tuple != nil {
		for _, r := range res.Tuple {
			if r.Typ != nil && isErrorType(r.Typ) {
				errs = append(errs, r)
			}
		}
	} else if resType != nil && isErrorType(resType) {
		errs = append(errs, res)
	}
	if ek.expr == nil {
		ex, err := ParseCExpr("!Is(r, " + ek.Sentinel + ")")
		if err != nil {
			panic(err)
		}
		ek.expr = ex
	}
	for _, r := range errs {
		cl := Clause{Expr: ek.expr, Src: "!Is(r, " + ek.Sentinel + ")", File: "(error-kind sweep)", Trusted: true}
		env := &Env{e: e, pkg: modulePath + "/internal/rules", vars: map[string]Val{"r": r}, cl: cl}
		f := e.evalBoolEnv(env, ek.expr, st, st, cl)
		if e.evalFailed {
			continue
		}
		e.sc.Assert(implies(rb, f))
	}
}

// errKindForeign: a function outside the heimdall module cannot produce one of heimdall's sentinel
// errors unless it is given one (an error argument), can call back into heimdall (function values),
// or is package errors / fmt (wrapping).
func (e *Enc) errKindForeign(key string, c *ssa.CallCommon, args []Val) bool {
	k := strings.TrimPrefix(strings.TrimPrefix(key, "("), "*")
	for _, p := range []string{"errors.", "fmt.Errorf"} {
		if strings.HasPrefix(k, p) {
			return false
		}
	}
	var carries func(t types.Type, d int) bool
	carries = func(t types.Type, d int) bool {
		if t == nil || d > 3 {
			return false
		}
		if isErrorType(t) {
			return true
		}
		switch u := t.Underlying().(type) {
		case *types.Signature:
			return true
		case *types.Slice:
			return carries(u.Elem(), d+1)
		case *types.Pointer:
			return carries(u.Elem(), d+1)
		}
		return false
	}
	for _, a := range args {
		if carries(a.Typ, 0) {
			return false
		}
	}
	e.trusted["errors returned by functions outside the heimdall module do not match (errors.Is) heimdall's sentinel error "+e.w.errKind.Sentinel+" (call without error/function arguments): "+key] = true
	return true
}

// errKindIfaceSafe: every in-repo implementation of the invoked interface method is a cone member
// carrying the synthesized postcondition; interfaces declared outside the module are handled like
// foreign functions when no in-repo type implements them.
func (e *Enc) errKindIfaceSafe(key string, c *ssa.CallCommon) bool {
	ek := e.w.errKind
	if r, ok := ek.ifaceOK[key]; ok {
		return r
	}
	r := false
	if c != nil && c.IsInvoke() {
		impls := e.w.implsOfIface(c.Value.Type(), c.Method)
		r = true
		for _, fn := range impls {
			if !ek.Safe[fn] {
				r = false
			}
		}
		if len(impls) == 0 {
			// no in-repo implementation: foreign code behind the interface
			if n, ok := c.Value.Type().(*types.Named); ok && n.Obj().Pkg() != nil && strings.HasPrefix(n.Obj().Pkg().Path(), modulePath) {
				r = false // in-repo interface without in-repo implementation (mocks only): unknown
			} else {
				e.trusted["errors returned through an interface implemented only outside the heimdall module do not match heimdall's sentinel error "+ek.Sentinel+": "+key] = true
			}
		}
	}
	ek.ifaceOK[key] = r
	return r
}

// plainErrorValue: v boxes a value of a concrete type that has neither an Is nor an Unwrap method;
// errors.Is(v, t) is then plain equality.
func (e *Enc) plainErrorValue(v Val, concrete types.Type, st *State, rb Term) {
	errI := types.Universe.Lookup("error").Type().Underlying().(*types.Interface)
	if !types.Implements(concrete, errI) {
		return
	}
	// outside of the error-kind sweep only for heimdall's own error types (few sites)
	if e.w.errKind == nil {
		t := concrete
		if p, ok := t.(*types.Pointer); ok {
			t = p.Elem()
		}
		n, ok := t.(*types.Named)
		if !ok || n.Obj().Pkg() == nil || !strings.HasPrefix(n.Obj().Pkg().Path(), modulePath) {
			return
		}
	}
	hasIs := false
	ms := e.w.prog.MethodSets.MethodSet(concrete)
	for i := 0; i < ms.Len(); i++ {
		switch ms.At(i).Obj().Name() {
		case "Unwrap":
			return
		case "Is":
			hasIs = true
		}
	}
	src := "forall t error :: Is(r, t) <==> (r != nil && r == t)"
	if hasIs {
		if _, ok := e.w.ct.Specs["customIs"]; !ok {
			return
		}
		src = "forall t error :: Is(r, t) ==> (r == t || customIs(r, t))"
	}
	ex, err := ParseCExpr(src)
	if err != nil {
		panic(err)
	}
	cl := Clause{Expr: ex, Src: src, File: "(errors.Is on a type without Is/Unwrap methods)", Trusted: true}
	env := &Env{e: e, pkg: modulePath + "/internal/rules", vars: map[string]Val{"r": v}, cl: cl}
	f := e.evalBoolEnv(env, ex, st, st, cl)
	if e.evalFailed {
		return
	}
	e.sc.Assert(implies(rb, f))
	e.trusted["errors.Is(e, t) is equality for e of a type without Is and Unwrap methods (package errors semantics)"] = true
}

// namedFuncCandidates: the functions that can be the value of an expression of the named function
// type nt declared in the heimdall module: every conversion to nt in the loaded program converts a
// function or a closure (whole-program scan). complete is false when some conversion converts
// something else (then the set is open).
func (w *World) namedFuncCandidates(nt *types.Named) (fns []*ssa.Function, complete bool) {
	if w.nfCache == nil {
		// one pass over the program: every conversion to a named function type of the module
		w.nfCache = map[string]*nfCand{}
		seen := map[string]map[*ssa.Function]bool{}
		for fn := range w.allFuncs {
			for _, b := range fn.Blocks {
				for _, in := range b.Instrs {
					ctp, ok := in.(*ssa.ChangeType)
					if !ok {
						continue
					}
					t := inModuleNamedFunc(ctp.Type())
					if t == nil {
						continue
					}
					k := typeKey(t)
					c := w.nfCache[k]
					if c == nil {
						c = &nfCand{complete: true}
						w.nfCache[k] = c
						seen[k] = map[*ssa.Function]bool{}
					}
					var f *ssa.Function
					switch x := ctp.X.(type) {
					case *ssa.Function:
						f = x
					case *ssa.MakeClosure:
						f, _ = x.Fn.(*ssa.Function)
					}
					if f == nil {
						c.complete = false
					} else if !seen[k][f] {
						seen[k][f] = true
						c.fns = append(c.fns, f)
					}
				}
			}
		}
		for _, c := range w.nfCache {
			sortFuncs(c.fns)
		}
	}
	if c, ok := w.nfCache[typeKey(nt)]; ok {
		return c.fns, c.complete
	}
	return nil, true
}

type nfCand struct {
	fns      []*ssa.Function
	complete bool
}

func sortFuncs(fs []*ssa.Function) {
	sort.Slice(fs, func(i, j int) bool { return fs[i].String() < fs[j].String() })
}

func inModuleNamedFunc(t types.Type) *types.Named {
	nt, ok := t.(*types.Named)
	if !ok || nt.Obj().Pkg() == nil || !strings.HasPrefix(nt.Obj().Pkg().Path(), modulePath) {
		return nil
	}
	if _, ok := nt.Underlying().(*types.Signature); !ok {
		return nil
	}
	return nt
}

// errKindAssumeDyn: a dynamic call through a value of a named in-repo function type whose possible
// callees are all cone members carrying the synthesized postcondition.
func (e *Enc) errKindAssumeDyn(c *ssa.CallCommon, res Val, resType types.Type, st *State, rb Term) {
	ek := e.w.errKind
	if ek == nil || c == nil {
		return
	}
	nt := inModuleNamedFunc(c.Value.Type())
	if nt == nil {
		return
	}
	fns, complete := e.w.namedFuncCandidates(nt)
	if !complete {
		return
	}
	for _, f := range fns {
		if len(errResultIdx(f.Signature)) > 0 && !ek.Safe[f] {
			return
		}
	}
	e.trusted["closed world for the function type "+typeKey(nt)+": its values are the functions converted to it in the loaded program"] = true
	e.errKindAssert(res, resType, st, rb)
}

// privSentinels: the unexported package-level error variables of package pkg that are sentinels
// (initialised once with errors.New, never stored to again).
func (w *World) privSentinels(pkg string) []string {
	if w.privSent == nil {
		w.privSent = map[string][]string{}
	}
	if r, ok := w.privSent[pkg]; ok {
		return r
	}
	var out []string
	if p := w.pkgByPath[pkg]; p != nil {
		for _, name := range p.Scope().Names() {
			if ast.IsExported(name) {
				continue
			}
			v, ok := p.Scope().Lookup(name).(*types.Var)
			if !ok || !isErrorType(v.Type()) {
				continue
			}
			if _, ok := w.sentinelOrd(pkg + "." + name); ok {
				out = append(out, name)
			}
		}
	}
	w.privSent[pkg] = out
	return out
}

// privSentinelAssume: an unexported sentinel error of package P (the package of the function under
// verification) cannot be named by code of any other package; a function of another package can
// only return it when it is handed it. After a call of such a function that gets no error and no
// function value, the error results do not match P's unexported sentinels. (Go visibility; the
// remaining route - a value of dynamic type from P reachable from the arguments and calling back -
// is listed as assumption.)
func (e *Enc) privSentinelAssume(fr *Frame, key string, invoke bool, c *ssa.CallCommon, args []Val, res Val, resType types.Type, st *State, rb Term) {
	if fr == nil || fr.top == nil || fr.top.fn == nil {
		return
	}
	P := fnPkgPath(fr.top.fn)
	if !strings.HasPrefix(P, modulePath) {
		return
	}
	sents := e.w.privSentinels(P)
	if len(sents) == 0 {
		return
	}
	var errs []Val
	if res.Tuple != nil {
		for _, r := range res.Tuple {
			if r.Typ != nil && isErrorType(r.Typ) {
				errs = append(errs, r)
			}
		}
	} else if resType != nil && isErrorType(resType) {
		errs = append(errs, res)
	}
	if len(errs) == 0 {
		return
	}
	if invoke {
		if c == nil || !c.IsInvoke() {
			return
		}
		if n, ok := c.Value.Type().(*types.Named); !ok || n.Obj().Pkg() == nil || n.Obj().Pkg().Path() == P {
			return
		}
		for _, impl := range e.w.implsOfIface(c.Value.Type(), c.Method) {
			if fnPkgPath(impl) == P {
				return
			}
		}
	} else {
		fn := e.w.funcs[key]
		q := ""
		if fn != nil {
			q = fnPkgPath(fn)
		} else if c != nil && c.StaticCallee() != nil {
			q = fnPkgPath(c.StaticCallee())
		}
		if q == "" || q == P {
			return
		}
		k := strings.TrimPrefix(strings.TrimPrefix(key, "("), "*")
		if strings.HasPrefix(k, "errors.") || strings.HasPrefix(k, "fmt.Errorf") {
			return
		}
	}
	for _, a := range args {
		if a.Typ == nil {
			continue
		}
		if isErrorType(a.Typ) {
			return
		}
		if _, isFn := a.Typ.Underlying().(*types.Signature); isFn {
			return
		}
	}
	for _, s := range sents {
		src := "!Is(r, " + s + ")"
		ex, err := ParseCExpr(src)
		if err != nil {
			continue
		}
		for _, r := range errs {
			cl := Clause{Expr: ex, Src: src, File: "(unexported sentinel)", Trusted: true}
			env := &Env{e: e, pkg: P, vars: map[string]Val{"r": r}, cl: cl}
			f := e.evalBoolEnv(env, ex, st, st, cl)
			if e.evalFailed {
				continue
			}
			e.sc.Assert(implies(rb, f))
		}
		e.trusted["an error returned by code of another package does not match the unexported sentinel "+P[strings.LastIndex(P, "/")+1:]+"."+s+" (Go visibility; the call hands over no error and no function value, and no value handed over calls back into the package to obtain one)"] = true
	}
}
