package main

// Evaluation of contract expressions to SMT terms, type-directed by go/types.

import (
	"fmt"
	"go/constant"
	"go/types"
	"strings"

	"golang.org/x/tools/go/ssa"
)

type Env struct {
	e     *Enc
	pkg   string
	vars  map[string]Val
	fr    *Frame // host frame (for loop invariants / cut asserts / ensures)
	cl    Clause
	watch *[]WatchItem
	bound int
	inOld bool
}

// WatchItem: a contract-level subexpression and its SMT term, evaluated in counterexamples.
type WatchItem struct {
	Src  string
	Term Term
	Sort string
}

type evalErr struct{ msg string }

func (e *Enc) evalFail(env *Env, f string, a ...any) {
	panic(evalErr{fmt.Sprintf("%s:%d: %s: %s", env.cl.File, env.cl.Line, env.cl.Src, fmt.Sprintf(f, a...))})
}

func (env *Env) setResults(res Val, sig *types.Signature) {
	rs := []Val{res}
	if res.Tuple != nil {
		rs = res.Tuple
	}
	if sig.Results().Len() == 0 {
		rs = nil
	}
	for i, r := range rs {
		env.vars[fmt.Sprintf("ret%d", i)] = r
		if i < sig.Results().Len() {
			if n := sig.Results().At(i).Name(); n != "" && n != "_" {
				env.vars[n] = r
			}
		}
	}
}

// contractEnv binds a callee contract's parameter names to actual arguments.
func (e *Enc) contractEnv(ct *Contract, sig *types.Signature, args []Val, invoke bool) *Env {
	env := &Env{e: e, pkg: ct.Pkg, vars: map[string]Val{}}
	i := 0
	if invoke {
		env.vars["recv"] = args[0]
		env.vars["self"] = args[0]
		i = 1
	} else if sig.Recv() != nil && len(args) == sig.Params().Len()+1 {
		env.vars["recv"] = args[0]
		env.vars["self"] = args[0]
		if n := sig.Recv().Name(); n != "" && n != "_" {
			env.vars[n] = args[0]
		}
		i = 1
	}
	for j := 0; j < sig.Params().Len() && i+j < len(args); j++ {
		p := sig.Params().At(j)
		env.vars[fmt.Sprintf("arg%d", j)] = args[i+j]
		if p.Name() != "" && p.Name() != "_" {
			env.vars[p.Name()] = args[i+j]
		}
	}
	return env
}

// hostEnv: names of the function under verification.
func (e *Enc) hostEnv(fr *Frame) *Env {
	pkg := ""
	if fr.contract != nil {
		pkg = fr.contract.Pkg
	}
	env := &Env{e: e, pkg: pkg, vars: map[string]Val{}, fr: fr}
	fn := fr.fn
	for i, p := range fn.Params {
		if i < len(fr.args) {
			env.vars[p.Name()] = fr.args[i]
			env.vars[p.Name()+"0"] = fr.args[i]
		}
	}
	if fn.Signature.Recv() != nil && len(fr.args) > 0 {
		env.vars["recv"] = fr.args[0]
		env.vars["self"] = fr.args[0]
	}
	off := 0
	if fn.Signature.Recv() != nil {
		off = 1
	}
	for j := 0; j < fn.Signature.Params().Len(); j++ {
		if off+j < len(fr.args) {
			env.vars[fmt.Sprintf("arg%d", j)] = fr.args[off+j]
		}
	}
	if fr.contract != nil {
		for n, j := range fr.contract.ParamAlias {
			if off+j < len(fr.args) {
				env.vars[n] = fr.args[off+j]
			}
		}
	}
	for i, fv := range fn.FreeVars {
		if i < len(fr.bind) {
			env.vars[fv.Name()] = fr.bind[i]
		}
	}
	for i, r := range fr.retVals {
		env.vars[fmt.Sprintf("ret%d", i)] = r
		if i < fn.Signature.Results().Len() {
			if n := fn.Signature.Results().At(i).Name(); n != "" && n != "_" {
				env.vars[n] = r
			}
		}
	}
	return env
}

func (e *Enc) evalBool(fr *Frame, x CExpr, cur, old *State, cl Clause) Term {
	return e.evalBoolEnv(e.hostEnv(fr), x, cur, old, cl)
}

// evalBoolWatch also returns the contract-level subexpressions for counterexample reporting.
func (e *Enc) evalBoolWatch(env *Env, x CExpr, cur, old *State, cl Clause) (Term, []WatchItem) {
	var w []WatchItem
	env.watch = &w
	t := e.evalBoolEnv(env, x, cur, old, cl)
	env.watch = nil
	return t, w
}

func (e *Enc) evalBoolEnv(env *Env, x CExpr, cur, old *State, cl Clause) (t Term) {
	env.cl = cl
	e.evalFailed = false
	defer func() {
		if r := recover(); r != nil {
			if ee, ok := r.(evalErr); ok {
				// the clause cannot be evaluated against the current source (an identifier it names
				// is gone or ambiguous): as a goal it counts as not proved ("false"), as an assumption
				// it is dropped by the caller (evalFailed)
				e.evalErrs = append(e.evalErrs, ee.msg)
				e.evalFailed = true
				t = "false"
				return
			}
			panic(r)
		}
	}()
	v := e.eval(env, x, cur, old)
	if e.sortOfVal(v) != "Bool" {
		e.evalFail(env, "expression is not boolean")
	}
	return v.T
}

func (e *Enc) sortOfVal(v Val) string {
	if v.Typ == nil {
		return "?"
	}
	return e.sortOf(v.Typ)
}

var (
	tInt    = types.Typ[types.Int]
	tBool   = types.Typ[types.Bool]
	tString = types.Typ[types.String]
)

func (e *Enc) eval(env *Env, x CExpr, cur, old *State) Val {
	v := e.eval1(env, x, cur, old)
	if env.watch != nil && env.bound == 0 && v.Typ != nil && v.Tuple == nil {
		switch x.(type) {
		case CIdent, CSel, CCall, CIndex, CUnary:
			if _, isLog := v.Typ.(*logArrayType); !isLog {
				src := x.String()
				if env.inOld {
					src = "old(" + src + ")"
				}
				if b, ok := v.Typ.(*types.Basic); !ok || b.Kind() != types.UntypedNil {
					*env.watch = append(*env.watch, WatchItem{Src: src, Term: v.T, Sort: e.sortOf(v.Typ)})
				}
			}
		}
	}
	return v
}

func (e *Enc) eval1(env *Env, x CExpr, cur, old *State) Val {
	switch n := x.(type) {
	case CInt:
		return Val{T: n.V, Typ: types.Typ[types.UntypedInt]}
	case CStr:
		return Val{T: strLit(n.V), Typ: tString}
	case CBool:
		if n.V {
			return Val{T: "true", Typ: tBool}
		}
		return Val{T: "false", Typ: tBool}
	case CNil:
		return Val{T: "nil", Typ: types.Typ[types.UntypedNil]}
	case CIdent:
		return e.evalIdent(env, n.Name, cur, old)
	case CUnary:
		switch n.Op {
		case "!":
			v := e.eval(env, n.X, cur, old)
			return Val{T: not(v.T), Typ: tBool}
		case "-":
			v := e.eval(env, n.X, cur, old)
			return Val{T: "(- " + v.T + ")", Typ: v.Typ}
		case "*":
			v := e.eval(env, n.X, cur, old)
			a := e.addrOfPointer(v)
			if a == nil {
				e.evalFail(env, "dereference of non-pointer %s", n.X)
			}
			return Val{T: e.Load(cur, a), Typ: a.Typ}
		case "&":
			// address-of a field path: only &x.f for escaping-address terms (locks)
			if sel, ok := n.X.(CSel); ok {
				b := e.eval(env, sel.X, cur, old)
				if _, isPtr := b.Typ.Underlying().(*types.Pointer); isPtr {
					st := b.Typ.Underlying().(*types.Pointer).Elem()
					idx := fieldIndex(st, sel.Name)
					if idx >= 0 {
						a := e.fieldAddr(b, idx)
						return Val{T: e.addrTerm(a), Typ: types.NewPointer(a.Typ), Addr: a}
					}
				}
			}
			e.evalFail(env, "unsupported address-of")
		}
	case CBinary:
		return e.evalBinary(env, n, cur, old)
	case CSel:
		return e.evalSel(env, n, cur, old)
	case CIndex:
		b := e.eval(env, n.X, cur, old)
		i := e.eval(env, n.I, cur, old)
		if b.Typ == nil {
			e.evalFail(env, "untyped index base")
		}
		switch u := b.Typ.Underlying().(type) {
		case *types.Slice:
			h := e.Get(cur, e.elemComp(u.Elem()))
			return Val{T: fmt.Sprintf("(select (select %s (sl_ref %s)) (+ (sl_off %s) %s))", h, b.T, b.T, i.T), Typ: u.Elem()}
		case *types.Map:
			// Go semantics: the zero value for an absent key
			dd, vv := e.mapComps(u)
			k := e.coerceTo(i, u.Key())
			has := app("select", app("select", e.Get(cur, dd), b.T), k)
			return Val{T: ite(has, app("select", app("select", e.Get(cur, vv), b.T), k), e.sorts.Zero(u.Elem())), Typ: u.Elem()}
		case *types.Array:
			return Val{T: app("select", b.T, i.T), Typ: u.Elem()}
		case *types.Basic:
			return Val{T: "(str.to_code (str.at " + b.T + " " + i.T + "))", Typ: types.Typ[types.Byte]}
		case *types.Pointer: // ghost log arrays are exposed as arrays, see evalSel
		}
		if lt, ok := b.Typ.(*logArrayType); ok {
			return Val{T: app("select", b.T, i.T), Typ: lt.elem}
		}
		e.evalFail(env, "cannot index %s", b.Typ)
	case CSlice:
		b := e.eval(env, n.X, cur, old)
		lo, hi := "0", ""
		if n.Lo != nil {
			lo = e.eval(env, n.Lo, cur, old).T
		}
		if n.Hi != nil {
			hi = e.eval(env, n.Hi, cur, old).T
		}
		switch b.Typ.Underlying().(type) {
		case *types.Basic:
			if hi == "" {
				hi = "(str.len " + b.T + ")"
			}
			return Val{T: fmt.Sprintf("(str.substr %s %s (- %s %s))", b.T, lo, hi, lo), Typ: b.Typ}
		case *types.Slice:
			if hi == "" {
				hi = "(sl_len " + b.T + ")"
			}
			return Val{T: fmt.Sprintf("(mk_slice (sl_ref %s) (+ (sl_off %s) %s) (- %s %s))", b.T, b.T, lo, hi, lo), Typ: b.Typ}
		}
		e.evalFail(env, "cannot slice %s", b.Typ)
	case CQuant:
		t := e.w.resolveType(n.Typ, env.pkg)
		if t == nil {
			e.evalFail(env, "unknown type %q", n.Typ)
		}
		t = e.instantiateLikeReceiver(t, env)
		name := "q_" + n.Var
		saved, had := env.vars[n.Var]
		env.vars[n.Var] = Val{T: name, Typ: t}
		env.bound++
		body := e.eval(env, n.Body, cur, old)
		env.bound--
		if had {
			env.vars[n.Var] = saved
		} else {
			delete(env.vars, n.Var)
		}
		q := "exists"
		if n.Forall {
			q = "forall"
		}
		return Val{T: fmt.Sprintf("(%s ((%s %s)) %s)", q, name, e.sortOf(t), body.T), Typ: tBool}
	case CCall:
		return e.evalCall(env, n, cur, old)
	}
	e.evalFail(env, "unsupported expression %s", x)
	return Val{}
}

// logArrayType marks ghost log arrays so they can be indexed in contracts.
type logArrayType struct {
	types.Type
	elem types.Type
}

func (l *logArrayType) Underlying() types.Type { return l }
func (l *logArrayType) String() string         { return "log[" + l.elem.String() + "]" }

func fieldIndex(st types.Type, name string) int {
	u, ok := st.Underlying().(*types.Struct)
	if !ok {
		return -1
	}
	for i := 0; i < u.NumFields(); i++ {
		if u.Field(i).Name() == name {
			return i
		}
	}
	return -1
}

func (e *Enc) coerceTo(v Val, t types.Type) Term {
	if v.Typ == nil {
		return v.T
	}
	if b, ok := v.Typ.(*types.Basic); ok && b.Kind() == types.UntypedNil {
		return e.sorts.Zero(t)
	}
	if b, ok := v.Typ.(*types.Basic); ok && b.Info()&types.IsUntyped != 0 {
		if e.sortOf(t) == "Real" && !strings.Contains(v.T, ".") {
			return v.T + ".0"
		}
		return v.T
	}
	return e.coerce(v, t)
}

func (e *Enc) evalIdent(env *Env, name string, cur, old *State) Val {
	if v, ok := env.vars[name]; ok {
		return v
	}
	if fr := env.fr; fr != nil {
		// loop header phis by source variable name
		if fr.loopHdr != nil {
			for _, in := range fr.loopHdr.Instrs {
				if phi, ok := in.(*ssa.Phi); ok {
					if phi.Comment == name || (name == "idx" && phi.Comment == "rangeindex") {
						return fr.vals[phi]
					}
				}
			}
		}
		if v, ok := fr.names[name]; ok && !fr.ambig[name] {
			if al, isAlloc := v.(*ssa.Alloc); isAlloc {
				if av, ok := fr.vals[al]; ok {
					a := e.addrOfPointer(av)
					return Val{T: e.Load(cur, a), Typ: a.Typ}
				}
			} else if sv, ok := fr.vals[v]; ok {
				return sv
			}
		}
	}
	if g, ok := e.w.ct.Ghosts[name]; ok {
		t := e.w.resolveType(g.Typ, g.Pkg)
		if t == nil {
			e.evalFail(env, "ghost %s has unknown type %s", name, g.Typ)
		}
		c := "$" + name
		e.comps.Register(c, e.sortOf(t))
		return Val{T: e.Get(cur, c), Typ: t}
	}
	if sf, ok := e.w.ct.Specs[name]; ok && len(sf.Params) == 0 {
		return e.applySpec(env, sf, nil, cur, old)
	}
	// package-level object
	if obj := e.w.lookupObj(env.pkg, name); obj != nil {
		return e.objVal(env, obj, cur)
	}
	e.evalFail(env, "unknown identifier %q", name)
	return Val{}
}

func (e *Enc) objVal(env *Env, obj types.Object, cur *State) Val {
	switch o := obj.(type) {
	case *types.Const:
		switch o.Val().Kind() {
		case constant.Int:
			s := o.Val().ExactString()
			if strings.HasPrefix(s, "-") {
				s = "(- " + s[1:] + ")"
			}
			return Val{T: s, Typ: o.Type()}
		case constant.String:
			return Val{T: strLit(constant.StringVal(o.Val())), Typ: o.Type()}
		case constant.Bool:
			return Val{T: fmt.Sprint(constant.BoolVal(o.Val())), Typ: o.Type()}
		}
	case *types.Var:
		name := "G:" + o.Pkg().Path() + "." + o.Name()
		if _, ok := e.comps.sorts[name]; !ok {
			e.comps.Register(name, e.sortOf(o.Type()))
		}
		return Val{T: e.Get(cur, name), Typ: o.Type()}
	case *types.Nil:
		return Val{T: "nil", Typ: types.Typ[types.UntypedNil]}
	}
	e.evalFail(env, "unsupported object %s", obj)
	return Val{}
}

func (e *Enc) evalSel(env *Env, n CSel, cur, old *State) Val {
	// ghost log: <log>.n / <log>.argK / <log>.retK
	if id, ok := n.X.(CIdent); ok {
		if _, isVar := env.vars[id.Name]; !isVar {
			if e.w.isLogName(id.Name) {
				c := "$" + id.Name + "." + n.Name
				if n.Name == "n" {
					e.comps.Register(c, "Int")
					return Val{T: e.Get(cur, c), Typ: tInt}
				}
				et := e.w.logElemType(id.Name, n.Name)
				if et == nil {
					e.evalFail(env, "unknown log component %s.%s", id.Name, n.Name)
				}
				e.comps.Register(c, "(Array Int "+e.sortOf(et)+")")
				return Val{T: e.Get(cur, c), Typ: &logArrayType{elem: et}}
			}
			// package qualifier
			if env.fr == nil || env.fr.names[id.Name] == nil {
				if p := e.w.lookupPkg(env.pkg, id.Name); p != nil {
					if obj := p.Scope().Lookup(n.Name); obj != nil {
						return e.objVal(env, obj, cur)
					}
					e.evalFail(env, "%s.%s not found", id.Name, n.Name)
				}
			}
		}
	}
	b := e.eval(env, n.X, cur, old)
	if b.Typ == nil {
		e.evalFail(env, "selector on untyped value")
	}
	// find field path (promoted fields through embedding)
	obj, path, _ := types.LookupFieldOrMethod(b.Typ, true, e.w.pkgTypes(env.pkg), n.Name)
	if obj == nil {
		// unexported field of another package
		obj, path = lookupFieldAnyPkg(b.Typ, n.Name)
	}
	fv, ok := obj.(*types.Var)
	if !ok || fv == nil {
		e.evalFail(env, "no field %s in %s", n.Name, b.Typ)
	}
	v := b
	for _, idx := range path {
		switch u := v.Typ.Underlying().(type) {
		case *types.Pointer:
			a := e.fieldAddr(v, idx)
			v = Val{T: e.Load(cur, a), Typ: a.Typ}
		case *types.Struct:
			v = Val{T: app(e.sorts.FieldSel(e.sortOf(v.Typ), u, idx), v.T), Typ: u.Field(idx).Type()}
		default:
			e.evalFail(env, "selector on %s", v.Typ)
		}
	}
	return v
}

func lookupFieldAnyPkg(t types.Type, name string) (types.Object, []int) {
	if p, ok := t.Underlying().(*types.Pointer); ok {
		t = p.Elem()
	}
	u, ok := t.Underlying().(*types.Struct)
	if !ok {
		return nil, nil
	}
	for i := 0; i < u.NumFields(); i++ {
		if u.Field(i).Name() == name {
			return u.Field(i), []int{i}
		}
	}
	for i := 0; i < u.NumFields(); i++ {
		if u.Field(i).Embedded() {
			if o, p := lookupFieldAnyPkg(u.Field(i).Type(), name); o != nil {
				return o, append([]int{i}, p...)
			}
		}
	}
	return nil, nil
}

func (e *Enc) evalBinary(env *Env, n CBinary, cur, old *State) Val {
	switch n.Op {
	case "&&", "||", "==>", "<==>":
		l := e.eval(env, n.L, cur, old)
		r := e.eval(env, n.R, cur, old)
		switch n.Op {
		case "&&":
			return Val{T: and(l.T, r.T), Typ: tBool}
		case "||":
			return Val{T: or(l.T, r.T), Typ: tBool}
		case "==>":
			return Val{T: implies(l.T, r.T), Typ: tBool}
		default:
			return Val{T: eq(l.T, r.T), Typ: tBool}
		}
	}
	l := e.eval(env, n.L, cur, old)
	r := e.eval(env, n.R, cur, old)
	isUntyped := func(v Val) bool {
		b, ok := v.Typ.(*types.Basic)
		return ok && b.Info()&types.IsUntyped != 0
	}
	typ := l.Typ
	if isUntyped(l) && !isUntyped(r) {
		typ = r.Typ
	}
	lt, rt := e.coerceTo(l, typ), e.coerceTo(r, typ)
	srt := e.sortOf(typ)
	if isUntyped(l) && isUntyped(r) {
		srt = "Int"
		if b := l.Typ.(*types.Basic); b.Kind() == types.UntypedNil {
			srt = "Int"
		}
	}
	switch n.Op {
	case "==", "!=":
		var t Term
		if srt == "Slice" && (lt == "(mk_slice 0 0 0)" || rt == "(mk_slice 0 0 0)") {
			o := lt
			if lt == "(mk_slice 0 0 0)" {
				o = rt
			}
			t = "(= (sl_ref " + o + ") 0)"
		} else {
			t = eq(lt, rt)
		}
		if n.Op == "!=" {
			t = not(t)
		}
		return Val{T: t, Typ: tBool}
	case "<", "<=", ">", ">=":
		if srt == "String" {
			switch n.Op {
			case "<":
				return Val{T: "(str.< " + lt + " " + rt + ")", Typ: tBool}
			case "<=":
				return Val{T: "(str.<= " + lt + " " + rt + ")", Typ: tBool}
			case ">":
				return Val{T: "(str.< " + rt + " " + lt + ")", Typ: tBool}
			default:
				return Val{T: "(str.<= " + rt + " " + lt + ")", Typ: tBool}
			}
		}
		return Val{T: "(" + n.Op + " " + lt + " " + rt + ")", Typ: tBool}
	case "+":
		if srt == "String" {
			return Val{T: "(str.++ " + lt + " " + rt + ")", Typ: typ}
		}
		return Val{T: "(+ " + lt + " " + rt + ")", Typ: typ}
	case "-", "*":
		return Val{T: "(" + n.Op + " " + lt + " " + rt + ")", Typ: typ}
	case "/":
		return Val{T: goDiv(lt, rt), Typ: typ}
	case "%":
		return Val{T: goRem(lt, rt), Typ: typ}
	case "<<":
		if c, ok := constInt(rt); ok && c < 63 {
			if lc, ok := constInt(lt); ok && c < 62 && lc < 1<<20 {
				return Val{T: fmt.Sprint(lc << uint(c)), Typ: typ}
			}
			return Val{T: fmt.Sprintf("(* %s %d)", lt, int64(1)<<uint(c)), Typ: typ}
		}
	}
	e.evalFail(env, "unsupported operator %s", n.Op)
	return Val{}
}

func (e *Enc) evalCall(env *Env, n CCall, cur, old *State) Val {
	arg := func(i int) Val {
		if i >= len(n.Args) {
			e.evalFail(env, "%s: missing argument %d", n.Fun, i)
		}
		return e.eval(env, n.Args[i], cur, old)
	}
	switch n.Fun {
	case "atloop":
		// atloop(e): the value of e when the loop whose invariant this is was reached (the state
		// right before its first iteration); logs and heap are read from that state
		if len(n.Args) != 1 {
			e.evalFail(env, "atloop takes one argument")
		}
		if env.fr == nil || env.fr.loopHdr == nil || env.fr.loopEntry == nil || env.fr.loopEntry[env.fr.loopHdr] == nil {
			e.evalFail(env, "atloop(...) outside a loop invariant")
		}
		return e.eval(env, n.Args[0], env.fr.loopEntry[env.fr.loopHdr], old)
	case "old":
		if len(n.Args) != 1 {
			e.evalFail(env, "old takes one argument")
		}
		saved := env.inOld
		env.inOld = true
		v := e.eval(env, n.Args[0], old, old)
		env.inOld = saved
		return v
	case "before":
		// before(e): e evaluated in the entry heap, but with the current ghost logs - for "the field
		// of the object a logged call returned, as it was when the function was entered"
		if len(n.Args) != 1 {
			e.evalFail(env, "before takes one argument")
		}
		saved := env.inOld
		env.inOld = true
		mixed := e.Mix(old, cur)
		v := e.eval(env, n.Args[0], mixed, old)
		env.inOld = saved
		return v
	case "len":
		v := arg(0)
		return Val{T: e.lenOf(v, cur), Typ: tInt}
	case "max", "min":
		a, b := arg(0), arg(1)
		t := a.Typ
		if bb, ok := t.(*types.Basic); ok && bb.Info()&types.IsUntyped != 0 {
			t = b.Typ
		}
		if n.Fun == "max" {
			return Val{T: ite("(>= "+a.T+" "+b.T+")", a.T, b.T), Typ: t}
		}
		return Val{T: ite("(<= "+a.T+" "+b.T+")", a.T, b.T), Typ: t}
	case "ite":
		c, a, b := arg(0), arg(1), arg(2)
		t := a.Typ
		if bb, ok := t.(*types.Basic); ok && bb.Info()&types.IsUntyped != 0 {
			t = b.Typ
		}
		return Val{T: ite(c.T, e.coerceTo(a, t), e.coerceTo(b, t)), Typ: t}
	case "contains":
		return Val{T: "(str.contains " + arg(0).T + " " + arg(1).T + ")", Typ: tBool}
	case "hasPrefix":
		return Val{T: "(str.prefixof " + arg(1).T + " " + arg(0).T + ")", Typ: tBool}
	case "hasSuffix":
		return Val{T: "(str.suffixof " + arg(1).T + " " + arg(0).T + ")", Typ: tBool}
	case "indexOf":
		return Val{T: "(str.indexof " + arg(0).T + " " + arg(1).T + " 0)", Typ: tInt}
	case "chr":
		// chr(b): the one-character string with code b
		return Val{T: "(str.from_code " + arg(0).T + ")", Typ: tString}
	case "substr":
		return Val{T: "(str.substr " + arg(0).T + " " + arg(1).T + " " + arg(2).T + ")", Typ: tString}
	case "replaceAll":
		// uninterpreted: SMT string solvers are incomplete for replace_all in the contexts that occur
		// here; equalities between identically built terms are all that is needed
		f := e.sc.DeclFun("strReplaceAll", []string{"String", "String", "String"}, "String")
		return Val{T: app(f, arg(0).T, arg(1).T, arg(2).T), Typ: tString}
	case "fv", "fvinit":
		// fv(f, closureFn, name): the captured cell of free variable `name` of closure value f
		// fvinit(f, closureFn, name): its value when the closure was created (effectively final only)
		if len(n.Args) != 3 {
			e.evalFail(env, "%s(f, closureFunc, freeVarName)", n.Fun)
		}
		fval := arg(0)
		key, err := normalizeTarget(exprTypeString(n.Args[1]), env.pkg)
		if err != nil {
			e.evalFail(env, "%v", err)
		}
		cfn := e.w.funcs[key]
		if cfn == nil {
			e.evalFail(env, "unknown closure function %s", key)
		}
		want := exprTypeString(n.Args[2])
		for k, v := range cfn.FreeVars {
			if v.Name() != want {
				continue
			}
			if n.Fun == "fv" {
				f := e.sc.DeclFun(fmt.Sprintf("cloFV_%s_%d", cfn.String(), k), []string{"Int"}, e.sortOf(v.Type()))
				return Val{T: app(f, fval.T), Typ: v.Type()}
			}
			et, ok := effectivelyFinal(cfn, k, nil)
			if !ok {
				e.evalFail(env, "free variable %s of %s is assigned inside the closure", want, key)
			}
			g := e.sc.DeclFun(fmt.Sprintf("cloFVinit_%s_%d", cfn.String(), k), []string{"Int"}, e.sortOf(et))
			return Val{T: app(g, fval.T), Typ: et}
		}
		e.evalFail(env, "%s has no free variable %s", key, want)
	case "zero":
		if len(n.Args) != 1 {
			e.evalFail(env, "zero(T)")
		}
		t := e.w.resolveType(exprTypeString(n.Args[0]), env.pkg)
		if t == nil {
			e.evalFail(env, "unknown type %s", n.Args[0])
		}
		return Val{T: e.sorts.Zero(t), Typ: t}
	case "ctxOwned":
		v := arg(0)
		ref := v.T
		if e.sortOfVal(v) == "Slice" {
			ref = "(sl_ref " + v.T + ")"
		}
		f := e.sc.DeclFun("sp_ctxOwned", []string{"Int"}, "Bool")
		return Val{T: app(f, ref), Typ: tBool}
	case "f2i":
		f := e.sc.DeclFun("f2i", []string{"Real"}, "Int")
		return Val{T: app(f, arg(0).T), Typ: tInt}
	case "isSentinel":
		// dynamic type *errors.errorString (values made by errors.New)
		return Val{T: fmt.Sprintf("(= (if_typ %s) %d)", arg(0).T, e.sorts.TypeIDNamed("*errors.errorString")), Typ: tBool}
	case "typeOf":
		return Val{T: "(if_typ " + arg(0).T + ")", Typ: tInt}
	case "string":
		// string(x) for x of a named string type: the identity on the SMT level
		v := arg(0)
		if e.sortOfVal(v) != "String" {
			e.evalFail(env, "string(x): x is not of a string type")
		}
		return Val{T: v.T, Typ: types.Typ[types.String]}
	case "typeIs":
		if len(n.Args) != 2 {
			e.evalFail(env, "typeIs(e, T)")
		}
		t := e.w.resolveType(exprTypeString(n.Args[1]), env.pkg)
		if t == nil {
			if env.cl.Trusted {
				// a trusted spec naming a type of a package that is not loaded in this run: no value of
				// that type can occur
				_ = arg(0)
				return Val{T: "false", Typ: tBool}
			}
			e.evalFail(env, "unknown type %s", n.Args[1])
		}
		return Val{T: fmt.Sprintf("(= (if_typ %s) %d)", arg(0).T, e.sorts.TypeID(t)), Typ: tBool}
	case "unbox":
		// unbox(e, T): payload of interface value e as T
		t := e.w.resolveType(exprTypeString(n.Args[1]), env.pkg)
		if t == nil {
			e.evalFail(env, "unknown type %s", n.Args[1])
		}
		_, val := e.typeAssert(arg(0), t)
		return Val{T: val, Typ: t}
	case "fresh":
		v := arg(0)
		ref := v.T
		if e.sortOfVal(v) == "Slice" {
			ref = "(sl_ref " + v.T + ")"
		}
		return Val{T: and(not(app("select", e.Get(old, "$alloc"), ref)), app("select", e.Get(cur, "$alloc"), ref)), Typ: tBool}
	case "allocated":
		v := arg(0)
		return Val{T: app("select", e.Get(cur, "$alloc"), v.T), Typ: tBool}
	case "has":
		m, k := arg(0), arg(1)
		mt, ok := m.Typ.Underlying().(*types.Map)
		if !ok {
			e.evalFail(env, "has(m,k) needs a map")
		}
		d, _ := e.mapComps(mt)
		return Val{T: app("select", app("select", e.Get(cur, d), m.T), e.coerceTo(k, mt.Key())), Typ: tBool}
	case "ref":
		v := arg(0)
		if e.sortOfVal(v) == "Slice" {
			return Val{T: "(sl_ref " + v.T + ")", Typ: tInt}
		}
		return Val{T: v.T, Typ: tInt}
	case "iface":
		// iface(x): the interface value boxing x (for comparing errors with sentinels of concrete type)
		v := arg(0)
		return e.makeIface(v, v.Typ)
	}
	if sf, ok := e.w.ct.Specs[n.Fun]; ok {
		var args []Val
		for i := range n.Args {
			args = append(args, arg(i))
		}
		return e.applySpec(env, sf, args, cur, old)
	}
	e.evalFail(env, "unknown function %s", n.Fun)
	return Val{}
}

func exprTypeString(x CExpr) string {
	switch n := x.(type) {
	case CIdent:
		return n.Name
	case CSel:
		return exprTypeString(n.X) + "." + n.Name
	case CUnary:
		return n.Op + exprTypeString(n.X)
	case CStr:
		// composite types the expression grammar cannot spell (map[string]any, []any) are quoted
		return n.V
	}
	return x.String()
}

// applySpec: defined spec functions are expanded; declared ones become uninterpreted functions
// (their axioms are asserted once per script).
func (e *Enc) applySpec(env *Env, sf *SpecFun, args []Val, cur, old *State) Val {
	if len(args) != len(sf.Params) {
		e.evalFail(env, "%s expects %d arguments", sf.Name, len(sf.Params))
	}
	rt := e.w.resolveType(sf.Ret, sf.Pkg)
	if rt == nil {
		e.evalFail(env, "spec %s: unknown result type %s", sf.Name, sf.Ret)
	}
	var pts []types.Type
	for _, p := range sf.Params {
		t := e.w.resolveType(p[1], sf.Pkg)
		if t == nil {
			e.evalFail(env, "spec %s: unknown parameter type %s", sf.Name, p[1])
		}
		pts = append(pts, t)
	}
	if sf.Def != nil {
		sub := &Env{e: e, pkg: sf.Pkg, vars: map[string]Val{}, cl: env.cl}
		for i, p := range sf.Params {
			sub.vars[p[0]] = Val{T: e.coerceTo(args[i], pts[i]), Typ: pts[i]}
		}
		v := e.eval(sub, sf.Def, cur, old)
		return Val{T: e.coerceTo(v, rt), Typ: rt}
	}
	var sorts []string
	var ts []Term
	for i := range sf.Params {
		sorts = append(sorts, e.sortOf(pts[i]))
		ts = append(ts, e.coerceTo(args[i], pts[i]))
	}
	first := e.sc.decls[sanitize("sp_"+sf.Name)] == ""
	f := e.sc.DeclFun("sp_"+sf.Name, sorts, e.sortOf(rt))
	if first {
		e.trusted["spec function: "+sf.Name] = true
		for _, ax := range sf.Axioms {
			sub := &Env{e: e, pkg: sf.Pkg, vars: map[string]Val{}, cl: ax}
			base := e.axiomState()
			t := e.evalBoolEnv(sub, ax.Expr, base, base, ax)
			e.sc.decls["axiom!"+sf.Name+fmt.Sprint(len(e.sc.declOrder))] = "(assert " + t + ")"
			e.sc.declOrder = append(e.sc.declOrder, "axiom!"+sf.Name+fmt.Sprint(len(e.sc.declOrder)))
		}
	}
	return Val{T: app(f, ts...), Typ: rt}
}

func (e *Enc) axiomState() *State {
	if e.axSt == nil {
		e.axSt = e.BaseState("ax")
	}
	return e.axSt
}

// instantiateLikeReceiver: inside (an instantiation of) a method of a generic type, the bare name of
// that generic type in a contract means the receiver's instantiation (Tree -> Tree[rule.Route]).
func (e *Enc) instantiateLikeReceiver(t types.Type, env *Env) types.Type {
	if env.fr == nil || env.fr.top == nil {
		return t
	}
	fn := env.fr.top.fn
	if fn.Signature.Recv() == nil {
		return t
	}
	rt := fn.Signature.Recv().Type()
	if p, ok := rt.(*types.Pointer); ok {
		rt = p.Elem()
	}
	rn, ok := rt.(*types.Named)
	if !ok || rn.TypeArgs().Len() == 0 {
		return t
	}
	var subst func(x types.Type) types.Type
	subst = func(x types.Type) types.Type {
		switch y := x.(type) {
		case *types.Pointer:
			return types.NewPointer(subst(y.Elem()))
		case *types.Slice:
			return types.NewSlice(subst(y.Elem()))
		case *types.Named:
			if y.TypeParams().Len() > 0 && y.TypeArgs().Len() == 0 && y.Origin() == rn.Origin() {
				return rn
			}
		}
		return x
	}
	return subst(t)
}
