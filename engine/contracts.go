package main

// Contract files: comment-only Go files (verif_contracts.go, build tag verif) in /repo
// and trusted spec files (/verif/specs/*.spec). Both use lines starting with "//@".

import (
	"bufio"
	"fmt"
	"os"
	"path/filepath"
	"regexp"
	"sort"
	"strconv"
	"strings"
)

type Clause struct {
	Expr    CExpr
	Src     string
	File    string
	Line    int
	Trusted bool // from an `assume` (spec file)
	Label   string
	Defines bool // definitional clause (skipped when verifying an implementation)
}

type CutAssert struct {
	Kind   string // "call", "return", "store"
	Callee string
	N      int
	Anchor string // optional: hash of the site's source line + occurrence ("1a2b3c4d.1"); found first, #N is the fallback
	Clause Clause
}

type Contract struct {
	Key         string // normalized function key
	Kind        string // func | iface
	Pkg         string // package path providing name resolution context
	File        string
	Line        int
	Props       []string
	Requires    []Clause
	Decreases   *Clause // termination measure of a recursive function (Int expression over the parameters)
	Ensures     []Clause
	LoopInv     map[int][]Clause
	Asserts     []CutAssert
	Modifies    []string // component patterns; nil+!ModSet => default
	ModSet      bool
	Pure        bool // no heap effect at all (not even ghost)
	Trusted     bool // body not verified (external spec or in-repo trusted)
	InRepo      bool
	Logged      string // ghost log name (interface methods / functions)
	NoInline    bool
	Inline      bool
	Safety      bool // generate safety obligations for this function
	Frame       bool // generate frame obligations
	Ghosts      []string
	Used        bool
	Panics      []Clause
	Watch       []Clause
	SubtypeOf   string         // synthesized: implementation verified against this interface contract
	ParamAlias  map[string]int // interface parameter name -> position
	logs        []string
	LogParams   map[string]string // parameter name -> ghost log of the dynamic calls made through it
	NoMapRange  []string          // callee-name substrings that must not be called inside a loop ranging over a map
	WriteFrame  bool              // every heap store must target memory allocated by this call or context-owned memory
	FreshResult bool              // (trusted specs) the result is a fresh allocation
	CallSites   map[string]int    // callsites <callee> <n>: the function has exactly n call sites of that callee
	UsesMapNext bool              // some clause mentions the ghost log mapnext
	UsesGoStart bool              // some clause mentions the ghost counter gostart (go statements executed)
	NoNilChecks bool              // sweep: nil-dereference obligations are not generated
}

type SpecFun struct {
	Name   string
	Params [][2]string // name, type
	Ret    string
	Def    CExpr
	DefSrc string
	Pkg    string
	File   string
	Line   int
	Axioms []Clause
}

type GhostVar struct {
	Name    string
	Typ     string
	Pkg     string
	Ambient bool // changed by trusted specs behind the code's back (clock): never frame-checked, havocked by every non-pure call
}

type Lemma struct {
	Name   string
	Props  []string
	Pkg    string
	Clause Clause
	Hyps   []Clause
}

type TypeInv struct {
	Type   string
	Pkg    string
	Clause Clause
}

// GlobalInv: invariant over the package-level variables of one package.
type GlobalInv struct {
	Pkg    string
	Props  []string
	Clause Clause
	InRepo bool
}

type ContractTable struct {
	GlobalInvs   []*GlobalInv
	Funcs        map[string]*Contract
	Specs        map[string]*SpecFun
	Ghosts       map[string]*GhostVar
	Lemmas       []*Lemma
	ImmutableExt []string // field components of third-party structs declared immutable (trusted; in-repo stores are scanned)
	EffectFree   []string // prefixes of function keys treated as effect-free with unconstrained result
	PurePkgs     []string
	Files        []string
	Errors       []string
	InitOnly     map[string][]string // function key -> fields of its receiver type it may initialise
}

func NewContractTable() *ContractTable {
	return &ContractTable{Funcs: map[string]*Contract{}, Specs: map[string]*SpecFun{}, Ghosts: map[string]*GhostVar{}, InitOnly: map[string][]string{}}
}

var targetRe = regexp.MustCompile(`^(?:\((\*?)([^)]+)\)\.)?([A-Za-z0-9_./\-~]+?)((?:\$[0-9]+)*)$`)

// normalizeTarget turns "(*T).M", "(T).M", "F", "pkg/path.F", "(*pkg/path.T).M" into the
// key format used by ssa.Function.String() (generic brackets stripped).
func normalizeTarget(tgt, pkg string) (string, error) {
	m := targetRe.FindStringSubmatch(tgt)
	if m == nil {
		return "", fmt.Errorf("bad target %q", tgt)
	}
	star, recv, name, clos := m[1], m[2], m[3], m[4]
	qual := func(n string) string {
		if strings.Contains(n, ".") || pkg == "" {
			return n
		}
		return pkg + "." + n
	}
	if recv != "" {
		return fmt.Sprintf("(%s%s).%s%s", star, qual(recv), name, clos), nil
	}
	return qual(name) + clos, nil
}

func (ct *ContractTable) errf(file string, line int, f string, a ...any) {
	ct.Errors = append(ct.Errors, fmt.Sprintf("%s:%d: %s", file, line, fmt.Sprintf(f, a...)))
}

// LoadFile parses one contract/spec file. pkg is the Go package path for in-repo files ("" for spec files).
func (ct *ContractTable) LoadFile(path, pkg string, inRepo bool) {
	f, err := os.Open(path)
	if err != nil {
		ct.errf(path, 0, "%v", err)
		return
	}
	defer f.Close()
	ct.Files = append(ct.Files, path)
	sc := bufio.NewScanner(f)
	sc.Buffer(make([]byte, 1<<20), 1<<20)
	var cur *Contract
	var curSpec *SpecFun
	var curLemma *Lemma
	curPkg := pkg
	ln := 0
	for sc.Scan() {
		ln++
		line := strings.TrimSpace(sc.Text())
		if !strings.HasPrefix(line, "//@") {
			continue
		}
		body := strings.TrimSpace(strings.TrimPrefix(line, "//@"))
		if body == "" || strings.HasPrefix(body, "#") {
			continue
		}
		kw, rest, _ := strings.Cut(body, " ")
		rest = strings.TrimSpace(rest)
		mk := func(src string) Clause {
			e, err := ParseCExpr(src)
			if err != nil {
				ct.errf(path, ln, "%v", err)
				e = CBool{true}
			}
			if cur != nil && strings.Contains(src, "mapnext") {
				cur.UsesMapNext = true
			}
			if cur != nil && strings.Contains(src, "gostart") {
				cur.UsesGoStart = true
			}
			return Clause{Expr: e, Src: src, File: path, Line: ln}
		}
		switch kw {
		case "package": // spec files: set resolution package for following blocks
			curPkg = rest
			cur, curSpec, curLemma = nil, nil, nil
		case "func", "iface":
			key, err := normalizeTarget(rest, curPkg)
			if err != nil {
				ct.errf(path, ln, "%v", err)
				continue
			}
			if old, dup := ct.Funcs[key]; dup {
				ct.errf(path, ln, "duplicate contract for %s (first at %s:%d)", key, old.File, old.Line)
			}
			cur = &Contract{Key: key, Kind: kw, Pkg: curPkg, File: path, Line: ln, LoopInv: map[int][]Clause{}, InRepo: inRepo, Trusted: !inRepo}
			ct.Funcs[key] = cur
			curSpec, curLemma = nil, nil
		case "spec":
			sf, err := parseSpecDecl(rest)
			if err != nil {
				ct.errf(path, ln, "%v", err)
				continue
			}
			sf.Pkg, sf.File, sf.Line = curPkg, path, ln
			if _, dup := ct.Specs[sf.Name]; dup {
				ct.errf(path, ln, "duplicate spec function %s", sf.Name)
			}
			ct.Specs[sf.Name] = sf
			cur, curSpec, curLemma = nil, sf, nil
		case "axiom":
			if curSpec == nil {
				ct.errf(path, ln, "axiom outside spec block")
				continue
			}
			if inRepo {
				ct.errf(path, ln, "axiom is only legal in /verif/specs")
				continue
			}
			c := mk(rest)
			c.Trusted = true
			curSpec.Axioms = append(curSpec.Axioms, c)
		case "globalinv":
			// globalinv <props>: expr  - an invariant over package-level variables of this package:
			// proved as a postcondition of the package initialiser, assumed at the entry of every function
			head, ex, ok := strings.Cut(rest, ":")
			if !ok {
				ct.errf(path, ln, "globalinv <props>: expr")
				continue
			}
			save := cur
			cur = nil
			cl := mk(strings.TrimSpace(ex))
			cur = save
			ct.GlobalInvs = append(ct.GlobalInvs, &GlobalInv{Pkg: curPkg, Props: strings.Fields(head), Clause: cl, InRepo: inRepo})
			cur, curSpec, curLemma = nil, nil, nil
		case "ghost":
			parts := strings.Fields(rest)
			if len(parts) < 2 {
				ct.errf(path, ln, "ghost <name> <type> [ambient]")
				continue
			}
			ct.Ghosts[parts[0]] = &GhostVar{Name: parts[0], Typ: parts[1], Pkg: curPkg, Ambient: len(parts) > 2 && parts[2] == "ambient"}
			cur, curSpec, curLemma = nil, nil, nil
		case "lemma":
			name, ex, ok := strings.Cut(rest, ":")
			if !ok {
				ct.errf(path, ln, "lemma name: expr")
				continue
			}
			curLemma = &Lemma{Name: strings.TrimSpace(name), Pkg: curPkg, Clause: mk(strings.TrimSpace(ex))}
			ct.Lemmas = append(ct.Lemmas, curLemma)
			cur, curSpec = nil, nil
		case "initonly":
			// initonly (*T).init: f1 f2 ...   fields stored only by this function, which is only
			// called on objects still under construction (checked by the whole-program scan)
			tgt, fl, ok := strings.Cut(rest, ":")
			if !ok {
				ct.errf(path, ln, "initonly <func>: fields")
				continue
			}
			key, err := normalizeTarget(strings.TrimSpace(tgt), curPkg)
			if err != nil {
				ct.errf(path, ln, "%v", err)
				continue
			}
			ct.InitOnly[key] = append(ct.InitOnly[key], strings.Fields(fl)...)
			cur, curSpec, curLemma = nil, nil, nil
		case "immutablefield":
			// immutablefield <pkg/path.Type.field> ...: (trusted) nobody writes the field after the
			// object was handed to heimdall; the engine checks that no in-repo function stores to it
			if inRepo {
				ct.errf(path, ln, "immutablefield is only legal in /verif/specs")
				continue
			}
			for _, f := range strings.Fields(rest) {
				ct.ImmutableExt = append(ct.ImmutableExt, "F:"+f)
			}
		case "effectfree":
			if inRepo {
				ct.errf(path, ln, "effectfree is only legal in /verif/specs")
				continue
			}
			ct.EffectFree = append(ct.EffectFree, strings.Fields(rest)...)
		case "props":
			ps := strings.FieldsFunc(rest, func(r rune) bool { return r == ',' || r == ' ' })
			if cur != nil {
				cur.Props = append(cur.Props, ps...)
			} else if curLemma != nil {
				curLemma.Props = append(curLemma.Props, ps...)
			}
		default:
			if curLemma != nil && kw == "given" {
				curLemma.Hyps = append(curLemma.Hyps, mk(rest))
				continue
			}
			if cur == nil {
				ct.errf(path, ln, "clause %q outside a func/iface block", kw)
				continue
			}
			switch kw {
			case "requires":
				cur.Requires = append(cur.Requires, mk(rest))
			case "decreases":
				c := mk(rest)
				cur.Decreases = &c
			case "ensures":
				c := mk(rest)
				c.Trusted = !inRepo
				cur.Ensures = append(cur.Ensures, c)
			case "defines":
				// defines f(recv): the implementation's result *is* the value of the spec function at its
				// receiver (checked for implementations only as purity; assumed at call sites)
				c := mk("ret0 == " + rest)
				c.Defines = true
				c.Trusted = !inRepo
				cur.Ensures = append(cur.Ensures, c)
			case "assume":
				if inRepo {
					ct.errf(path, ln, "assume is only legal in /verif/specs")
					continue
				}
				c := mk(rest)
				c.Trusted = true
				cur.Ensures = append(cur.Ensures, c)
			case "watch":
				cur.Watch = append(cur.Watch, mk(rest))
			case "modifies":
				cur.ModSet = true
				for _, m := range strings.Split(rest, ",") {
					m = strings.TrimSpace(m)
					if m != "" && m != "nothing" {
						cur.Modifies = append(cur.Modifies, m)
					}
				}
			case "pure":
				cur.Pure = true
				cur.ModSet = true
			case "trusted":
				cur.Trusted = true
			case "logged":
				cur.Logged = rest
			case "logparam":
				// logparam <param> <log>: calls through the function-typed parameter are recorded
				fs := strings.Fields(rest)
				if len(fs) != 2 {
					ct.errf(path, ln, "logparam <param> <log>")
					continue
				}
				if cur.LogParams == nil {
					cur.LogParams = map[string]string{}
				}
				cur.LogParams[fs[0]] = fs[1]
			case "nomaprange":
				// nomaprange <callee substrings>: these calls must not happen inside a loop that ranges
				// over a map (Go randomises the iteration order; the effect would depend on it)
				cur.NoMapRange = append(cur.NoMapRange, strings.Fields(rest)...)
			case "callsites":
				// callsites <callee> <n>: exactly n call sites of the callee in this function (static)
				fs2 := strings.Fields(rest)
				n2 := -1
				if len(fs2) == 2 {
					n2, _ = strconv.Atoi(fs2[1])
				}
				if n2 < 0 {
					ct.errf(path, ln, "callsites <callee> <n>")
					continue
				}
				if cur.CallSites == nil {
					cur.CallSites = map[string]int{}
				}
				cur.CallSites[fs2[0]] = n2
			case "writeframe":
				cur.WriteFrame = true
			case "fresh-result":
				cur.FreshResult = true
			case "noinline":
				cur.NoInline = true
			case "inline":
				cur.Inline = true
			case "safety":
				// safety [nonil]: no-panic obligations (index, slice, type assertion, explicit panic, nil
				// map write, division); "nonil" leaves out generic nil-dereference obligations
				cur.Safety = true
				if rest == "nonil" {
					cur.NoNilChecks = true
				}
			case "frame":
				cur.Frame = true
			case "loop":
				nstr, r2, _ := strings.Cut(rest, " ")
				n, err := strconv.Atoi(nstr)
				r2 = strings.TrimSpace(r2)
				if err != nil || !strings.HasPrefix(r2, "invariant ") {
					ct.errf(path, ln, "loop N invariant expr")
					continue
				}
				cur.LoopInv[n] = append(cur.LoopInv[n], mk(strings.TrimSpace(strings.TrimPrefix(r2, "invariant "))))
			case "assert":
				// assert at call <callee>#k: expr   |  assert at return#k: expr
				r2 := strings.TrimSpace(strings.TrimPrefix(rest, "at "))
				head, ex, ok := strings.Cut(r2, ":")
				if !ok {
					ct.errf(path, ln, "assert at <point>: expr")
					continue
				}
				// careful: "::" of quantifiers – only first single colon splits; re-join if cut inside "::"
				for strings.HasPrefix(ex, ":") {
					ct.errf(path, ln, "assert point must precede ':'")
					break
				}
				ca := CutAssert{Clause: mk(strings.TrimSpace(ex))}
				hf := strings.Fields(head)
				tgt := hf[len(hf)-1]
				ca.Kind = hf[0]
				name, nstr, _ := strings.Cut(tgt, "#")
				ca.Callee = name
				nstr, ca.Anchor, _ = strings.Cut(nstr, "@")
				ca.N, _ = strconv.Atoi(nstr)
				if len(hf) == 1 {
					ca.Kind, _, _ = strings.Cut(hf[0], "#")
					ca.Callee = ""
				}
				cur.Asserts = append(cur.Asserts, ca)
			default:
				ct.errf(path, ln, "unknown clause %q", kw)
			}
		}
	}
}

var specDeclRe = regexp.MustCompile(`^([A-Za-z_][A-Za-z0-9_]*)\(([^)]*)\)\s*([^=]+?)\s*(?:=\s*(.*))?$`)

func parseSpecDecl(s string) (*SpecFun, error) {
	m := specDeclRe.FindStringSubmatch(s)
	if m == nil {
		return nil, fmt.Errorf("bad spec declaration %q", s)
	}
	sf := &SpecFun{Name: m[1], Ret: strings.TrimSpace(m[3])}
	if strings.TrimSpace(m[2]) != "" {
		for _, p := range strings.Split(m[2], ",") {
			fs := strings.Fields(strings.TrimSpace(p))
			if len(fs) != 2 {
				return nil, fmt.Errorf("bad spec parameter %q", p)
			}
			sf.Params = append(sf.Params, [2]string{fs[0], fs[1]})
		}
	}
	if m[4] != "" {
		e, err := ParseCExpr(m[4])
		if err != nil {
			return nil, err
		}
		sf.Def = e
		sf.DefSrc = m[4]
	}
	return sf, nil
}

// LoadAll reads every verif_contracts*.go under repo/internal (package path derived from
// the directory) and every *.spec under specDir.
func (ct *ContractTable) LoadAll(repo, module, specDir string) {
	var files []string
	filepath.Walk(repo, func(p string, info os.FileInfo, err error) error {
		if err != nil {
			return nil
		}
		if info.IsDir() && (info.Name() == ".git" || info.Name() == "docs" || info.Name() == "node_modules") {
			return filepath.SkipDir
		}
		if !info.IsDir() && strings.HasPrefix(info.Name(), "verif_contracts") && strings.HasSuffix(info.Name(), ".go") {
			files = append(files, p)
		}
		return nil
	})
	sort.Strings(files)
	for _, f := range files {
		rel, _ := filepath.Rel(repo, filepath.Dir(f))
		pkg := module
		if rel != "." {
			pkg = module + "/" + filepath.ToSlash(rel)
		}
		ct.LoadFile(f, pkg, true)
	}
	specs, _ := filepath.Glob(filepath.Join(specDir, "*.spec"))
	sort.Strings(specs)
	for _, f := range specs {
		ct.LoadFile(f, "", false)
	}
}
