package main

// Replay of solver counterexamples on the real code: the contract-level values of the
// counterexample (Verdict.Values) instantiate a Go test template, which is injected into the
// function's package with `go test -overlay` (nothing is written into the repository).

import (
	"bytes"
	"context"
	"encoding/json"
	"fmt"
	"os"
	"os/exec"
	"path/filepath"
	"strconv"
	"strings"
	"sync"
	"text/template"
	"time"
)

type replayEntry struct {
	Template  string   `json:"template"`
	Pkg       string   `json:"pkg"`                  // directory relative to repo root
	Kinds     []string `json:"kinds,omitempty"`      // obligation kinds this template can replay (default: post, pre)
	Match     string   `json:"match,omitempty"`      // substring the obligation name must contain
	ClauseHas string   `json:"clause_has,omitempty"` // substring the obligation's clause text must contain
	Package   string   `json:"package,omitempty"`    // Go package name (default: last dir element)
	Race      bool     `json:"race,omitempty"`
	NoInputs  bool     `json:"noinputs,omitempty"` // the replay needs no counterexample values
	Pattern   string   `json:"pattern,omitempty"`  // further output substrings ("a|b") that mean "reproduced" (fatal errors cannot be recovered in the test)
}

func init() {
	replayers = append(replayers, templateReplay)
}

func smtInt(s string) (int64, bool) {
	s = strings.TrimSpace(s)
	neg := false
	if strings.HasPrefix(s, "(-") {
		neg = true
		s = strings.TrimSpace(strings.TrimSuffix(strings.TrimPrefix(s, "(-"), ")"))
	}
	v, err := strconv.ParseInt(s, 10, 64)
	if err != nil {
		return 0, false
	}
	if neg {
		v = -v
	}
	return v, true
}

func smtString(s string) (string, bool) {
	s = strings.TrimSpace(s)
	if len(s) < 2 || s[0] != '"' || s[len(s)-1] != '"' {
		return "", false
	}
	s = s[1 : len(s)-1]
	s = strings.ReplaceAll(s, "\"\"", "\"")
	// \u{XX} escapes
	var b strings.Builder
	for i := 0; i < len(s); i++ {
		if strings.HasPrefix(s[i:], "\\u{") {
			j := strings.Index(s[i:], "}")
			if j > 0 {
				if v, err := strconv.ParseInt(s[i+3:i+j], 16, 32); err == nil {
					if v < 256 {
						b.WriteByte(byte(v))
					} else {
						b.WriteRune(rune(v))
					}
					i += j
					continue
				}
			}
		}
		b.WriteByte(s[i])
	}
	return b.String(), true
}

func templateReplay(r *Report, v *Verdict) *ReplayResult {
	idxPath := filepath.Join(r.Verif, "replay", "index.json")
	b, err := os.ReadFile(idxPath)
	if err != nil {
		return nil
	}
	var idx map[string][]replayEntry
	if err := json.Unmarshal(b, &idx); err != nil {
		return &ReplayResult{Skipped: "bad replay index: " + err.Error()}
	}
	fn := v.Ob.Name
	if i := strings.LastIndex(fn, "/"); i >= 0 {
		fn = fn[:i]
	}
	var ent *replayEntry
	// entries under the function's own key first, then the wildcard entries (key "*", selected by
	// kind, name substring and clause substring: obligations synthesized by a sweep have no fixed name)
	cands := append(append([]replayEntry{}, idx[fn]...), idx["*"]...)
	for i := range cands {
		e := &cands[i]
		if e.ClauseHas != "" && !strings.Contains(v.Ob.Src, e.ClauseHas) {
			continue
		}
		kinds := e.Kinds
		if len(kinds) == 0 {
			kinds = []string{"post", "pre"}
		}
		okKind := false
		for _, k := range kinds {
			if k == v.Ob.Kind {
				okKind = true
			}
		}
		if okKind && (e.Match == "" || strings.Contains(v.Ob.Name, e.Match)) {
			ent = e
			break
		}
	}
	if ent == nil {
		return nil
	}
	if len(v.Values) == 0 && !ent.NoInputs {
		return &ReplayResult{Skipped: "the solver returned no values for the contract-level expressions"}
	}
	if ent.NoInputs {
		// input-free replays do not depend on the obligation: run each template once per check
		replayMemoMu.Lock()
		memo, ok := replayMemo[ent.Template+"@"+ent.Pkg]
		replayMemoMu.Unlock()
		if ok {
			cp := *memo
			return &cp
		}
	}
	funcs := template.FuncMap{
		"int": func(k string) (int64, error) {
			s, ok := v.Values[k]
			if !ok {
				return 0, fmt.Errorf("no value for %q in counterexample", k)
			}
			n, ok := smtInt(s)
			if !ok {
				return 0, fmt.Errorf("value of %q is not an integer: %s", k, s)
			}
			return n, nil
		},
		"intOr": func(k string, d int64) int64 {
			if s, ok := v.Values[k]; ok {
				if n, ok := smtInt(s); ok {
					return n
				}
			}
			return d
		},
		"str": func(k string) (string, error) {
			s, ok := v.Values[k]
			if !ok {
				return "", fmt.Errorf("no value for %q in counterexample", k)
			}
			x, ok := smtString(s)
			if !ok {
				return "", fmt.Errorf("value of %q is not a string: %s", k, s)
			}
			return strconv.Quote(x), nil
		},
		"bool": func(k string) (bool, error) {
			s, ok := v.Values[k]
			if !ok {
				return false, fmt.Errorf("no value for %q in counterexample", k)
			}
			return strings.TrimSpace(s) == "true", nil
		},
		"isNil": func(k string) (bool, error) {
			s, ok := v.Values[k]
			if !ok {
				return false, fmt.Errorf("no value for %q in counterexample", k)
			}
			return strings.TrimSpace(s) == "0", nil
		},
		"has":        func(k string) bool { _, ok := v.Values[k]; return ok },
		"obligation": func() string { return v.Ob.Name },
		"clause":     func() string { return v.Ob.Src },
		"kind":       func() string { return v.Ob.Kind },
		"clauseIs":   func(sub string) bool { return strings.Contains(v.Ob.Name, sub) },
	}
	tsrc, err := os.ReadFile(filepath.Join(r.Verif, "replay", ent.Template))
	if err != nil {
		return &ReplayResult{Skipped: err.Error()}
	}
	tpl, err := template.New(ent.Template).Funcs(funcs).Parse(string(tsrc))
	if err != nil {
		return &ReplayResult{Skipped: "template: " + err.Error()}
	}
	var out bytes.Buffer
	if err := tpl.Execute(&out, map[string]any{"V": v.Values}); err != nil {
		return &ReplayResult{Skipped: "template: " + err.Error(), Inputs: v.Values}
	}
	dir := filepath.Join(r.OutDir, "replay")
	os.MkdirAll(dir, 0o755)
	testFile := filepath.Join(dir, sanitizeFile(v.Ob.Name)+"_test.go")
	os.WriteFile(testFile, out.Bytes(), 0o644)
	ov := map[string]any{"Replace": map[string]string{filepath.Join(r.Repo, ent.Pkg, "zz_verif_replay_test.go"): testFile}}
	ovb, _ := json.Marshal(ov)
	ovFile := filepath.Join(dir, sanitizeFile(v.Ob.Name)+".overlay.json")
	os.WriteFile(ovFile, ovb, 0o644)
	args := []string{"test", "-overlay", ovFile, "-vet=off", "-count=1", "-timeout", "180s", "-run", "^TestVerifReplay$"}
	if ent.Race {
		args = append(args, "-race")
	}
	args = append(args, "./"+ent.Pkg)
	ctx, cancel := context.WithTimeout(context.Background(), 400*time.Second)
	defer cancel()
	cmd := exec.CommandContext(ctx, "go", args...)
	cmd.Dir = r.Repo
	cmd.Env = append(os.Environ(), "GOFLAGS=-mod=mod", "GOPROXY=off", "GOSUMDB=off", "GOTOOLCHAIN=local", "VERIF_REPLAY_TIER="+r.Tier)
	var buf bytes.Buffer
	cmd.Stdout = &buf
	cmd.Stderr = &buf
	_ = cmd.Run()
	o := buf.String()
	if len(o) > 6000 {
		o = o[:6000]
	}
	extra := false
	if ent.Pattern != "" {
		for _, pat := range strings.Split(ent.Pattern, "|") {
			if pat != "" && strings.Contains(o, pat) {
				extra = true
			}
		}
	}
	res := &ReplayResult{
		Reproduced: extra || strings.Contains(o, "VERIF-REPRODUCED") || (ent.Race && strings.Contains(o, "WARNING: DATA RACE")),
		Cmd:        "cd " + r.Repo + " && go " + strings.Join(args, " "),
		Output:     o,
		TestFile:   testFile,
		Inputs:     v.Values,
	}
	if ent.NoInputs {
		replayMemoMu.Lock()
		replayMemo[ent.Template+"@"+ent.Pkg] = res
		replayMemoMu.Unlock()
	}
	return res
}

var (
	replayMemo   = map[string]*ReplayResult{}
	replayMemoMu sync.Mutex
)

// Bounded stand-ins: tests with a stated bound that run on every check for obligations the
// verifier cannot decide (listed in contracts/props/<id>.json). They are reported separately and
// never counted as proved.
type boundedCheck struct {
	Name       string `json:"name"`       // replay/index.json entry "bounded" with match == name
	Obligation string `json:"obligation"` // the undecided obligation it stands in for
	Bound      string `json:"bound"`
}

func runBounded(r *Report, prop string, checks []boundedCheck) *ExtraResult {
	if len(checks) == 0 {
		return nil
	}
	ex := &ExtraResult{Coverage: map[string]any{}}
	type res struct {
		c   boundedCheck
		rr  *ReplayResult
		dur float64
	}
	out := make([]res, len(checks))
	done := make(chan int)
	for i, c := range checks {
		go func(i int, c boundedCheck) {
			t0 := time.Now()
			v := &Verdict{Ob: &Obligation{Name: "bounded/" + c.Name, Kind: "bounded", Src: c.Obligation + " (bounded: " + c.Bound + ")"}, Status: "bounded"}
			out[i] = res{c, templateReplay(r, v), time.Since(t0).Seconds()}
			done <- i
		}(i, c)
	}
	for range checks {
		<-done
	}
	var list []any
	for _, o := range out {
		status := "held"
		switch {
		case o.rr == nil:
			status = "not-run (no replay/index.json entry)"
		case o.rr.Skipped != "":
			status = "not-run (" + o.rr.Skipped + ")"
		case o.rr.Reproduced:
			status = "violated"
			dir := filepath.Join(r.OutDir, "replay")
			os.MkdirAll(dir, 0o755)
			p := filepath.Join(dir, sanitizeFile("bounded_"+o.c.Name)+".json")
			b, _ := json.MarshalIndent(map[string]any{"property": prop, "obligation": o.c.Obligation, "kind": "bounded", "bound": o.c.Bound,
				"replay_on_real_code": o.rr, "note": "bounded stand-in for an obligation the verifier cannot decide; the test failed on the real code"}, "", " ")
			os.WriteFile(p, b, 0o644)
			ex.Violations = append(ex.Violations, fmt.Sprintf("VIOLATION property=%s replay=%s", prop, p))
			fmt.Printf("FAILED-BOUNDED %s (stands in for %s; bound: %s)\n", o.c.Name, o.c.Obligation, o.c.Bound)
		case !strings.Contains(o.rr.Output, "ok  \t") && !strings.Contains(o.rr.Output, "VERIF-NOT-REPRODUCED"):
			status = "not-run (test did not build or run: " + firstLine(o.rr.Output) + ")"
		}
		list = append(list, map[string]any{"name": o.c.Name, "stands_in_for": o.c.Obligation, "bound": o.c.Bound, "status": status, "wall_s": round1(o.dur), "cmd": o.rr.Cmd})
	}
	ex.Coverage["bounded_standins"] = list
	ex.Assumptions = append(ex.Assumptions, "bounded_standins are tests with the stated bound run on the real code on every check; they are not proofs and are not counted in obligations/discharged")
	return ex
}

func firstLine(s string) string {
	s = strings.TrimSpace(s)
	if i := strings.IndexByte(s, '\n'); i >= 0 {
		s = s[:i]
	}
	if len(s) > 160 {
		s = s[:160]
	}
	return s
}
