package main

import (
	"bytes"
	"context"
	"fmt"
	"os"
	"os/exec"
	"path/filepath"
	"strings"
	"sync"
	"time"
)

type SolverRun struct {
	Solver string
	Result string // sat unsat unknown timeout error
	Ms     int64
	Output string
}

type Verdict struct {
	Ob       *Obligation
	Status   string // discharged | failed | undecided | engine-error   (for ExpectSat: discharged means sat)
	Runs     []SolverRun
	Solver   string
	Ms       int64
	Model    string
	SMTPath  string
	SMTBytes int
}

type solverDef struct {
	name string
	argv func(file string, timeoutS int) []string
}

var solvers = []solverDef{
	{"z3-4.8.12", func(f string, t int) []string { return []string{"/usr/bin/z3", fmt.Sprintf("-T:%d", t), f} }},
	{"z3-5.1.0", func(f string, t int) []string { return []string{"z3-new", fmt.Sprintf("-T:%d", t), f} }},
	{"cvc5-1.0", func(f string, t int) []string {
		return []string{"cvc5", "--strings-exp", fmt.Sprintf("--tlimit=%d", t*1000), f}
	}},
}

func parseResult(out string) string {
	for _, l := range strings.Split(out, "\n") {
		l = strings.TrimSpace(l)
		switch l {
		case "sat", "unsat", "unknown":
			return l
		case "timeout":
			return "timeout"
		}
		if strings.HasPrefix(l, "(error") {
			return "error"
		}
	}
	if strings.Contains(out, "timeout") || strings.Contains(out, "interrupted") {
		return "timeout"
	}
	return "error"
}

func runSolver(ctx context.Context, sd solverDef, file string, timeoutS int) SolverRun {
	argv := sd.argv(file, timeoutS)
	c, cancel := context.WithTimeout(ctx, time.Duration(timeoutS+2)*time.Second)
	defer cancel()
	cmd := exec.CommandContext(c, argv[0], argv[1:]...)
	var buf bytes.Buffer
	cmd.Stdout = &buf
	cmd.Stderr = &buf
	t0 := time.Now()
	_ = cmd.Run()
	ms := time.Since(t0).Milliseconds()
	out := buf.String()
	r := parseResult(out)
	if c.Err() != nil && r == "error" {
		r = "timeout"
	}
	if len(out) > 20000 {
		out = out[:20000]
	}
	return SolverRun{Solver: sd.name, Result: r, Ms: ms, Output: out}
}

// Solve discharges one obligation by racing the solvers (all=true: run all to completion).
func Solve(o *Obligation, outDir string, timeoutS int, all bool) *Verdict {
	extra := []string{"(assert " + o.Guard + ")", "(assert (not " + o.Formula + "))"}
	script := o.sc.Render(o.Mark, extra, true)
	fname := filepath.Join(outDir, sanitizeFile(o.Name)+".smt2")
	_ = os.MkdirAll(outDir, 0o755)
	_ = os.WriteFile(fname, []byte(script), 0o644)
	v := &Verdict{Ob: o, SMTPath: fname, SMTBytes: len(script)}
	ctx, cancel := context.WithCancel(context.Background())
	defer cancel()
	ch := make(chan SolverRun, len(solvers))
	for _, sd := range solvers {
		go func(sd solverDef) { ch <- runSolver(ctx, sd, fname, timeoutS) }(sd)
	}
	var sat, unsat *SolverRun
	for range solvers {
		r := <-ch
		v.Runs = append(v.Runs, r)
		rr := r
		switch r.Result {
		case "sat":
			if sat == nil {
				sat = &rr
			}
		case "unsat":
			if unsat == nil {
				unsat = &rr
			}
		}
		if !all && (sat != nil || unsat != nil) {
			cancel()
			break
		}
	}
	switch {
	case sat != nil && unsat != nil:
		v.Status = "engine-error"
	case o.ExpectSat:
		switch {
		case sat != nil:
			v.Status, v.Solver, v.Ms = "discharged", sat.Solver, sat.Ms
		case unsat != nil:
			v.Status, v.Solver, v.Ms = "failed", unsat.Solver, unsat.Ms
		default:
			v.Status = "undecided"
		}
	case unsat != nil:
		v.Status, v.Solver, v.Ms = "discharged", unsat.Solver, unsat.Ms
	case sat != nil:
		v.Status, v.Solver, v.Ms = "failed", sat.Solver, sat.Ms
		v.Model = modelOf(sat.Output)
	default:
		v.Status = "undecided"
	}
	return v
}

func modelOf(out string) string {
	i := strings.Index(out, "sat")
	if i < 0 {
		return ""
	}
	return strings.TrimSpace(out[i+3:])
}

func sanitizeFile(s string) string {
	var b strings.Builder
	for _, r := range s {
		switch {
		case r >= 'a' && r <= 'z', r >= 'A' && r <= 'Z', r >= '0' && r <= '9', r == '.', r == '-', r == '_', r == '#', r == '@':
			b.WriteRune(r)
		default:
			b.WriteByte('_')
		}
	}
	return b.String()
}

// SolveAll runs obligations with bounded parallelism.
func SolveAll(obs []*Obligation, outDir string, timeoutS int, all bool, par int) []*Verdict {
	res := make([]*Verdict, len(obs))
	var wg sync.WaitGroup
	sem := make(chan struct{}, par)
	for i, o := range obs {
		wg.Add(1)
		sem <- struct{}{}
		go func(i int, o *Obligation) {
			defer wg.Done()
			defer func() { <-sem }()
			res[i] = Solve(o, outDir, timeoutS, all)
		}(i, o)
	}
	wg.Wait()
	return res
}
