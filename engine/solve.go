package main

import (
	"bytes"
	"context"
	"fmt"
	"os"
	"os/exec"
	"path/filepath"
	"strings"
	"sync"
	"time"
)

type SolverRun struct {
	Solver string
	Result string // sat unsat unknown timeout error
	Ms     int64
	Output string
}

type Verdict struct {
	Ob        *Obligation
	Status    string // discharged | failed | undecided | engine-error   (for ExpectSat: discharged means sat)
	Runs      []SolverRun
	Solver    string
	Ms        int64
	Model     string
	SMTPath   string
	SMTBytes  int
	Watch     []WatchItem
	Values    map[string]string // contract-level expression -> value in the counterexample
	Candidate bool              // model comes from the weakened context
}

type solverDef struct {
	name string
	argv func(file string, timeoutS int) []string
}

var solvers = []solverDef{
	{"z3-4.8.12", func(f string, t int) []string { return []string{"/usr/bin/z3", fmt.Sprintf("-T:%d", t), f} }},
	{"z3-5.1.0", func(f string, t int) []string { return []string{"z3-new", fmt.Sprintf("-T:%d", t), f} }},
	{"cvc5-1.0", func(f string, t int) []string {
		return []string{"cvc5", "--strings-exp", fmt.Sprintf("--tlimit=%d", t*1000), f}
	}},
}

func parseResult(out string) string {
	for _, l := range strings.Split(out, "\n") {
		l = strings.TrimSpace(l)
		switch l {
		case "sat", "unsat", "unknown":
			return l
		case "timeout":
			return "timeout"
		}
		if strings.HasPrefix(l, "(error") {
			return "error"
		}
	}
	if strings.Contains(out, "timeout") || strings.Contains(out, "interrupted") {
		return "timeout"
	}
	return "error"
}

func runSolver(ctx context.Context, sd solverDef, file string, timeoutS int) SolverRun {
	argv := sd.argv(file, timeoutS)
	c, cancel := context.WithTimeout(ctx, time.Duration(timeoutS+2)*time.Second)
	defer cancel()
	cmd := exec.CommandContext(c, argv[0], argv[1:]...)
	var buf bytes.Buffer
	cmd.Stdout = &buf
	cmd.Stderr = &buf
	t0 := time.Now()
	_ = cmd.Run()
	ms := time.Since(t0).Milliseconds()
	out := buf.String()
	r := parseResult(out)
	if c.Err() != nil && r == "error" {
		r = "timeout"
	}
	if len(out) > 20000 {
		out = out[:20000]
	}
	return SolverRun{Solver: sd.name, Result: r, Ms: ms, Output: out}
}

// Solve discharges one obligation by racing the solvers (all=true: run all to completion).
func Solve(o *Obligation, outDir string, timeoutS int, all bool) *Verdict {
	if o.KeepQuant {
		// a refutation of a contradictory context is found quickly or not at all
		if timeoutS > 10 {
			timeoutS = 10
		} else {
			timeoutS = 3
		}
	}
	extra := []string{"(assert " + o.Guard + ")", "(assert (not " + o.Formula + "))"}
	script := o.sc.Render(o.Mark, extra, false)
	if o.ExpectSat && !o.KeepQuant {
		// vacuity: drop engine-generated quantified facts (dropping assertions can only make the
		// query more satisfiable, i.e. the vacuity check weaker, never unsound for the proofs)
		var keep []string
		for _, l := range strings.Split(script, "\n") {
			if strings.HasPrefix(l, "(assert ") && (strings.Contains(l, "(forall ") || strings.Contains(l, "(exists ")) {
				continue
			}
			keep = append(keep, l)
		}
		script = strings.Join(keep, "\n")
	}
	if len(o.Watch) > 0 {
		var ts []string
		seen := map[string]bool{}
		for _, w := range o.Watch {
			if !seen[w.Term] {
				seen[w.Term] = true
				ts = append(ts, w.Term)
			}
		}
		script += "(get-value (" + strings.Join(ts, " ") + "))\n"
	}
	fname := filepath.Join(outDir, sanitizeFile(o.Name)+".smt2")
	_ = os.MkdirAll(outDir, 0o755)
	_ = os.WriteFile(fname, []byte(script), 0o644)
	v := &Verdict{Ob: o, SMTPath: fname, SMTBytes: len(script)}
	v.Watch = o.Watch
	// first attempt: the slice of the context connected to the goal (valid for unsat answers only)
	if !o.ExpectSat && !all {
		sliced := o.sc.RenderSliced(o.Mark, extra, 3)
		sname := filepath.Join(outDir, sanitizeFile(o.Name)+".sliced.smt2")
		_ = os.WriteFile(sname, []byte(sliced), 0o644)
		sctx, scancel := context.WithCancel(context.Background())
		sch := make(chan SolverRun, len(solvers))
		for _, sd := range solvers {
			go func(sd solverDef) { sch <- runSolver(sctx, sd, sname, 4) }(sd)
		}
		done := false
		for range solvers {
			r := <-sch
			if r.Result == "unsat" && !done {
				done = true
				r.Solver += " (sliced context)"
				v.Runs = append(v.Runs, r)
				v.Status, v.Solver, v.Ms = "discharged", r.Solver, r.Ms
				v.SMTPath, v.SMTBytes = sname, len(sliced)
				scancel()
			}
		}
		scancel()
		if done {
			return v
		}
	}
	ctx, cancel := context.WithCancel(context.Background())
	defer cancel()
	ch := make(chan SolverRun, len(solvers))
	for _, sd := range solvers {
		go func(sd solverDef) { ch <- runSolver(ctx, sd, fname, timeoutS) }(sd)
	}
	var sat, unsat *SolverRun
	for range solvers {
		r := <-ch
		v.Runs = append(v.Runs, r)
		rr := r
		switch r.Result {
		case "sat":
			if sat == nil {
				sat = &rr
			}
		case "unsat":
			if unsat == nil {
				unsat = &rr
			}
		}
		if !all && (sat != nil || unsat != nil) {
			cancel()
			break
		}
	}
	allErr := len(v.Runs) > 0
	for _, r := range v.Runs {
		if r.Result != "error" {
			allErr = false
		}
	}
	switch {
	case allErr:
		// every solver rejected the script: a malformed query is an engine bug, never a verdict
		v.Status = "engine-error"
	case sat != nil && unsat != nil:
		v.Status = "engine-error"
	case o.ExpectSat && o.KeepQuant:
		// only a refutation counts: "unknown"/timeout is the normal answer for a satisfiable
		// quantified context
		if unsat != nil {
			// refuted: either the path is dead by the program's own logic (then it is refuted without
			// the quantified facts too, which is fine), or assumed facts contradict each other
			v.Status, v.Solver, v.Ms = "failed", unsat.Solver, unsat.Ms
			var keep []string
			for _, l := range strings.Split(script, "\n") {
				if strings.HasPrefix(l, "(assert ") && (strings.Contains(l, "(forall ") || strings.Contains(l, "(exists ")) {
					continue
				}
				keep = append(keep, l)
			}
			qname := filepath.Join(outDir, sanitizeFile(o.Name)+".qf.smt2")
			_ = os.WriteFile(qname, []byte(strings.Join(keep, "\n")), 0o644)
			qctx, qcancel := context.WithCancel(context.Background())
			qch := make(chan SolverRun, len(solvers))
			for _, sd := range solvers {
				go func(sd solverDef) { qch <- runSolver(qctx, sd, qname, 5) }(sd)
			}
			for range solvers {
				r := <-qch
				if r.Result == "unsat" && v.Status == "failed" {
					r.Solver += " (dead path: refuted without quantified facts)"
					v.Runs = append(v.Runs, r)
					v.Status, v.Solver = "discharged", r.Solver
					qcancel()
				}
			}
			qcancel()
		} else {
			v.Status = "discharged"
			if sat != nil {
				v.Solver, v.Ms = sat.Solver, sat.Ms
			} else {
				v.Solver = "none refuted"
			}
		}
	case o.ExpectSat:
		switch {
		case sat != nil:
			v.Status, v.Solver, v.Ms = "discharged", sat.Solver, sat.Ms
		case unsat != nil:
			v.Status, v.Solver, v.Ms = "failed", unsat.Solver, unsat.Ms
		default:
			v.Status = "undecided"
		}
	case unsat != nil:
		v.Status, v.Solver, v.Ms = "discharged", unsat.Solver, unsat.Ms
	case sat != nil:
		v.Status, v.Solver, v.Ms = "failed", sat.Solver, sat.Ms
		v.Model = modelOf(sat.Output)
		v.Values = parseValues(v.Model, o.Watch)
	default:
		v.Status = "undecided"
	}
	// No verdict on the full context: look for a counterexample candidate in the context without
	// its quantified facts (a weaker context: a model found here may be spurious, which the replay
	// on the real code decides; it is reported as a candidate, never as proof of anything).
	if v.Status == "undecided" && !o.ExpectSat {
		var keep []string
		for _, l := range strings.Split(script, "\n") {
			if strings.HasPrefix(l, "(assert ") && (strings.Contains(l, "(forall ") || strings.Contains(l, "(exists ")) {
				continue
			}
			keep = append(keep, l)
		}
		wname := filepath.Join(outDir, sanitizeFile(o.Name)+".weakened.smt2")
		_ = os.WriteFile(wname, []byte(strings.Join(keep, "\n")), 0o644)
		wctx, wcancel := context.WithCancel(context.Background())
		wch := make(chan SolverRun, len(solvers))
		for _, sd := range solvers {
			go func(sd solverDef) { wch <- runSolver(wctx, sd, wname, 5) }(sd)
		}
		for range solvers {
			r := <-wch
			if r.Result == "sat" && v.Model == "" {
				r.Solver += " (context without quantified facts: candidate only)"
				v.Runs = append(v.Runs, r)
				v.Model = modelOf(r.Output)
				v.Values = parseValues(v.Model, o.Watch)
				v.Candidate = true
				wcancel()
			}
		}
		wcancel()
	}
	return v
}

func modelOf(out string) string {
	i := strings.Index(out, "sat")
	if i < 0 {
		return ""
	}
	return strings.TrimSpace(out[i+3:])
}

func sanitizeFile(s string) string {
	var b strings.Builder
	for _, r := range s {
		switch {
		case r >= 'a' && r <= 'z', r >= 'A' && r <= 'Z', r >= '0' && r <= '9', r == '.', r == '-', r == '_', r == '#', r == '@':
			b.WriteRune(r)
		default:
			b.WriteByte('_')
		}
	}
	return b.String()
}

// SolveAll runs obligations with bounded parallelism.
func SolveAll(obs []*Obligation, outDir string, timeoutS int, all bool, par int) []*Verdict {
	res := make([]*Verdict, len(obs))
	var wg sync.WaitGroup
	sem := make(chan struct{}, par)
	for i, o := range obs {
		wg.Add(1)
		sem <- struct{}{}
		go func(i int, o *Obligation) {
			defer wg.Done()
			defer func() { <-sem }()
			res[i] = Solve(o, outDir, timeoutS, all)
		}(i, o)
	}
	wg.Wait()
	return res
}

// parseValues reads a (get-value ...) answer: a list of (term value) pairs.
func parseValues(model string, watch []WatchItem) map[string]string {
	out := map[string]string{}
	sx := parseSexprs(model)
	if len(sx) == 0 {
		return out
	}
	byTerm := map[string]string{}
	for _, pair := range sx[0].kids {
		if len(pair.kids) == 2 {
			byTerm[normSpace(pair.kids[0].String())] = pair.kids[1].String()
		}
	}
	for _, w := range watch {
		if v, ok := byTerm[normSpace(w.Term)]; ok {
			out[w.Src] = v
		}
	}
	return out
}

func normSpace(s string) string { return strings.Join(strings.Fields(s), " ") }

type sexpr struct {
	atom string
	kids []*sexpr
	list bool
}

func (s *sexpr) String() string {
	if !s.list {
		return s.atom
	}
	var xs []string
	for _, k := range s.kids {
		xs = append(xs, k.String())
	}
	return "(" + strings.Join(xs, " ") + ")"
}

func parseSexprs(src string) []*sexpr {
	var stack []*sexpr
	var top []*sexpr
	i := 0
	push := func(n *sexpr) {
		if len(stack) > 0 {
			stack[len(stack)-1].kids = append(stack[len(stack)-1].kids, n)
		} else {
			top = append(top, n)
		}
	}
	for i < len(src) {
		c := src[i]
		switch {
		case c == '(':
			n := &sexpr{list: true}
			push(n)
			stack = append(stack, n)
			i++
		case c == ')':
			if len(stack) > 0 {
				stack = stack[:len(stack)-1]
			}
			i++
		case c == ' ' || c == '\n' || c == '\t' || c == '\r':
			i++
		case c == '"':
			j := i + 1
			for j < len(src) {
				if src[j] == '"' {
					if j+1 < len(src) && src[j+1] == '"' {
						j += 2
						continue
					}
					break
				}
				j++
			}
			push(&sexpr{atom: src[i:min(j+1, len(src))]})
			i = j + 1
		case c == '|':
			j := i + 1
			for j < len(src) && src[j] != '|' {
				j++
			}
			push(&sexpr{atom: src[i:min(j+1, len(src))]})
			i = j + 1
		default:
			j := i
			for j < len(src) && !strings.ContainsRune("() \n\t\r", rune(src[j])) {
				j++
			}
			push(&sexpr{atom: src[i:j]})
			i = j
		}
	}
	return top
}
