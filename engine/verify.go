package main

import (
	"fmt"
	"go/types"
	"regexp"
	"runtime/debug"
	"sort"
	"strings"
)

type FuncResult struct {
	Key       string
	Contract  *Contract
	Obs       []*Obligation
	Warnings  []string
	Inlined   []string
	Trusted   []string
	Havocked  []string
	EffFree   []string
	Unsupp    []string
	Immut     []string
	EvalErrs  []string
	Err       string
	Stale     bool
	ScriptLen int
}

var identRe = regexp.MustCompile(`[A-Za-z_][A-Za-z0-9_]*`)

// VerifyFunc generates all obligations of one function under contract.
func (w *World) VerifyFunc(ct *Contract) (res *FuncResult) {
	res = &FuncResult{Key: ct.Key, Contract: ct}
	fn := w.funcs[ct.Key]
	if fn == nil || fn.Blocks == nil {
		res.Stale = true
		res.Err = "no such function (stale contract)"
		return res
	}
	defer func() {
		if r := recover(); r != nil {
			res.Err = fmt.Sprintf("engine panic: %v\n%s", r, debug.Stack())
		}
	}()
	e := w.NewEnc()
	e.checkSafe = ct.Safety
	entry := e.BaseState("0")
	fr := &Frame{fn: fn, contract: ct}
	fr.top = fr
	e.top = fr
	for _, p := range fn.Params {
		v := e.freshVal("p_"+p.Name(), p.Type())
		e.assumeAllocated(v, entry)
		fr.args = append(fr.args, v)
	}
	for k, fv := range fn.FreeVars {
		// a captured variable that is never assigned after the closure was created is a constant
		// of this execution: model its cell as a local (no callee can change it)
		if et, ok := effectivelyFinal(fn, k, nil); ok {
			e.allocN++
			name := fmt.Sprintf("L:%s.fv_%s#%d", fn.Name(), fv.Name(), e.allocN)
			e.comps.Register(name, e.sortOf(et))
			init := e.freshVal("fvinit_"+fv.Name(), et)
			e.assumeAllocated(init, entry)
			entry = e.Set(entry, name, init.T)
			fr.bind = append(fr.bind, Val{T: e.sc.DeclFun("addr_"+name, nil, "Int"), Typ: fv.Type(), Addr: &Addr{Comp: name, Typ: et, Root: et}})
			continue
		}
		fr.bind = append(fr.bind, e.freshVal("fv_"+fv.Name(), fv.Type()))
	}
	// a package initialiser runs exactly once: its guard is false at entry
	if fn.Synthetic == "package initializer" && fn.Pkg != nil {
		name := "G:" + fn.Pkg.Pkg.Path() + ".init$guard"
		e.comps.Register(name, "Bool")
		e.sc.Assert(not(e.Get(entry, name)))
	}
	// invariants of package-level variables hold at the entry of every function (they are proved for
	// the state the package initialiser leaves behind; the variables are checked never to be assigned
	// elsewhere; that nobody modifies what they refer to is an assumption listed in the evidence)
	fr.callN = map[string]int{}
	for _, gi := range w.ct.GlobalInvs {
		if w.pkgByPath[gi.Pkg] == nil {
			continue
		}
		if fn.Synthetic == "package initializer" && fn.Pkg != nil && fn.Pkg.Pkg.Path() == gi.Pkg {
			continue
		}
		// only functions of the declaring package are given the invariant (the variables it is
		// about are typically unexported; bringing their heap components into every other function's
		// context would only add frame obligations there)
		if fnPkgPath(fn) != gi.Pkg {
			continue
		}
		// every package-level variable the invariant mentions must be assigned by the initialiser only
		mutable := ""
		for _, tok := range identRe.FindAllString(gi.Clause.Src, -1) {
			if obj, ok := w.pkgByPath[gi.Pkg].Scope().Lookup(tok).(*types.Var); ok && obj != nil {
				if !w.immutableGlobal(gi.Pkg + "." + tok) {
					mutable = tok
				}
			}
		}
		if mutable != "" {
			w.contractErrors = append(w.contractErrors, fmt.Sprintf("%s:%d: globalinv mentions %s, which is assigned outside the package initialiser", gi.Clause.File, gi.Clause.Line, mutable))
			continue
		}
		env := &Env{e: e, pkg: gi.Pkg, vars: map[string]Val{}, fr: fr}
		f := e.evalBoolEnv(env, gi.Clause.Expr, entry, entry, gi.Clause)
		if e.evalFailed {
			continue
		}
		e.sc.Assert(f)
		e.trusted["global invariant of "+shortOfKey(gi.Pkg)+" holds at function entry ("+gi.Clause.Src+"): proved for the package initialiser; what the variables refer to is assumed not to be modified afterwards"] = true
	}
	// requires are assumed at entry
	for _, rq := range ct.Requires {
		f := e.evalBool(fr, rq.Expr, entry, entry, rq)
		if e.evalFailed {
			continue
		}
		e.sc.Assert(f)
	}
	rets, out, reach := e.execFunc(fr, entry, "true")
	fr.retVals = rets
	fr.loopHdr = nil
	for k, en := range ct.Ensures {
		if en.Defines {
			continue
		}
		f, watch := e.evalBoolWatch(e.hostEnv(fr), en.Expr, out, entry, en)
		o := e.ob(fr, "post", fmt.Sprintf("post#%d", k), reach, f, en.Src, fn.Pos())
		o.Watch = append(append(e.paramWatch(fr), watch...), e.contractWatch(fr, out, entry)...)
		// cover: the premise of an implication must be reachable, otherwise the clause says nothing
		if b, ok := en.Expr.(CBinary); ok && b.Op == "==>" {
			p := e.evalBool(fr, b.L, out, entry, en)
			c := e.ob(fr, "cover", fmt.Sprintf("post#%d.cover", k), reach, not(p), "premise reachable: "+b.L.String(), fn.Pos())
			c.ExpectSat = true
		}
	}
	// frame: every component changed must be covered by modifies (default: nothing)
	if reach != "false" && ct.ModSet {
		e.frameObligations(fr, ct, entry, out, reach)
	}
	// callsites <callee> <n>: a syntactic bound on who calls the callee directly
	for _, callee := range sortedKeys(ct.CallSites) {
		want := ct.CallSites[callee]
		got := len(e.cutSites(fn, "call", callee))
		f := "true"
		if got != want {
			f = "false"
		}
		e.ob(fr, "assert", "callsites@"+callee, "true", f, fmt.Sprintf("exactly %d call sites of %s (found %d)", want, callee, got), fn.Pos())
	}
	// a cut-point assertion that matched no call says something about a call that is not there
	for k, ca := range ct.Asserts {
		if ca.Kind == "call" && fr.callN[fmt.Sprintf("assertseen:%d", k)] == 0 {
			e.ob(fr, "assert", fmt.Sprintf("assert@%s#%d", ca.Callee, ca.N), reach, "false", "no such call: "+ca.Clause.Src, fn.Pos())
		}
		if ca.Kind == "store" && fr.callN[fmt.Sprintf("assertseen:%d", k)] == 0 {
			e.ob(fr, "assert", fmt.Sprintf("assert@store.%s#%d", ca.Callee, ca.N), reach, "false", "no such store: "+ca.Clause.Src, fn.Pos())
		}
		if ca.Kind == "return" && fr.callN[fmt.Sprintf("assertseen:%d", k)] == 0 {
			e.ob(fr, "assert", fmt.Sprintf("assert@return#%d", ca.N), reach, "false", "no such return: "+ca.Clause.Src, fn.Pos())
		}
	}
	// vacuity: the exit must be reachable under the requires and all assumed callee contracts
	v := e.ob(fr, "vacuity", "vacuity", reach, "false", "exit reachable under requires/assumptions", fn.Pos())
	v.ExpectSat = true

	res.Obs = e.obs
	res.Warnings = e.warnings
	res.Inlined = sortedKeys(e.inlined)
	res.Trusted = sortedKeys(e.trusted)
	res.Havocked = sortedKeys(e.havocked)
	res.EffFree = sortedKeys(e.effFree)
	res.Unsupp = sortedKeys(e.unsupp)
	res.Immut = sortedKeys(e.immut)
	res.EvalErrs = e.evalErrs
	res.ScriptLen = len(e.sc.lines)
	return res
}

func (e *Enc) frameObligations(fr *Frame, ct *Contract, entry, out *State, reach Term) {
	touched := map[string]bool{}
	e.touchedComps(out, entry, map[*State]bool{}, touched)
	mod := e.modFromContract(ct)
	if ct.Pure {
		mod = func(string) bool { return false }
	}
	var names []string
	for c := range touched {
		names = append(names, c)
	}
	sort.Strings(names)
	al0 := e.Get(entry, "$alloc")
	for _, c := range names {
		if c == "$alloc" || strings.HasPrefix(c, "$p#") || strings.HasPrefix(c, "L:") || e.w.ambientGhost(c) {
			continue
		}
		if mod(c) {
			continue
		}
		if strings.HasPrefix(c, "$") && e.isLogComp(c) {
			continue // ghost call logs are bookkeeping of the proof, not program state
		}
		before, after := e.Get(entry, c), e.Get(out, c)
		if before == after {
			continue
		}
		var f Term
		srt := e.comps.sorts[c]
		switch {
		case strings.HasPrefix(c, "G:") || strings.HasPrefix(c, "$"):
			f = eq(before, after)
		case strings.HasPrefix(srt, "(Array Int"):
			f = fmt.Sprintf("(forall ((r Int)) (=> (select %s r) (= (select %s r) (select %s r))))", al0, after, before)
		default:
			f = eq(before, after)
		}
		e.ob(fr, "frame", "frame#"+compShort(c), reach, f, "not in modifies: "+c, fr.fn.Pos())
	}
}

func compShort(c string) string {
	c = strings.ReplaceAll(c, modulePath+"/internal/", "")
	c = strings.ReplaceAll(c, modulePath+"/", "")
	return c
}

var _ = types.Typ

func (e *Enc) paramWatch(fr *Frame) []WatchItem {
	var w []WatchItem
	for i, p := range fr.fn.Params {
		if i < len(fr.args) && fr.args[i].Tuple == nil {
			w = append(w, WatchItem{Src: "param " + p.Name(), Term: fr.args[i].T, Sort: e.sortOf(p.Type())})
		}
	}
	for i, r := range fr.retVals {
		if r.Tuple == nil {
			w = append(w, WatchItem{Src: fmt.Sprintf("ret%d", i), Term: r.T, Sort: e.sortOf(r.Typ)})
		}
	}
	return w
}

// contractWatch evaluates the contract's `watch` expressions (inputs a replay needs).
func (e *Enc) contractWatch(fr *Frame, cur, old *State) []WatchItem {
	top := fr.top
	if top == nil || top.contract == nil {
		return nil
	}
	var out []WatchItem
	for _, wc := range top.contract.Watch {
		env := e.hostEnv(top)
		env.cl = wc
		func() {
			defer func() {
				if r := recover(); r != nil {
					if ee, ok := r.(evalErr); ok {
						e.evalErrs = append(e.evalErrs, "watch: "+ee.msg)
						return
					}
					panic(r)
				}
			}()
			var w []WatchItem
			env.watch = &w
			v := e.eval(env, wc.Expr, cur, old)
			if v.Tuple == nil && v.Typ != nil {
				out = append(out, WatchItem{Src: wc.Src, Term: v.T, Sort: e.sortOf(v.Typ)})
			}
			out = append(out, w...)
		}()
	}
	return out
}
