#!/usr/bin/env python3
"""Pre-commit sanity check: every evidence file comes from a clean quick run (no violations,
discharged == obligations) and validates against the evidence schema."""
import json, glob, sys
try:
    import jsonschema
    schema = json.load(open('/root/.vp/EVIDENCE.schema.json'))
except Exception:
    jsonschema = None
bad = 0
for f in sorted(glob.glob('/verif/evidence/C*.json')):
    e = json.load(open(f)); c = e['coverage']
    if c.get('discharged') != c.get('obligations') or e.get('violations') or e.get('tier') != 'quick':
        print("STALE-EVIDENCE", f, c.get('discharged'), c.get('obligations'), e.get('violations'), e.get('tier')); bad = 1
    if jsonschema:
        try:
            jsonschema.validate(e, schema)
        except Exception as ex:
            print("SCHEMA", f, str(ex)[:200]); bad = 1
print("evidence ok" if not bad else "evidence NOT ok")
sys.exit(bad)
