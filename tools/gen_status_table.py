#!/usr/bin/env python3
"""Rewrites the per-property status table of DESIGN.md §0.6 from MANIFEST.json and evidence/*.json."""
import json, re
m = json.load(open('/verif/MANIFEST.json'))
rows = []
for c in m['checks']:
    pid = c['property_id']
    try:
        ev = json.load(open(f'/verif/evidence/{pid}.json'))
        n = ev['coverage'].get('obligations', '?')
    except Exception:
        n = '?'
    first = c['level_claimed']['text'].split(': ')[0].split('. ')[0][:230]
    rows.append((pid, f"| {pid} | {n} | {first} |"))
for na in m.get('not_applicable', []):
    rows.append((na['property_id'], f"| {na['property_id']} | - | not applicable: {na['reason']} |"))
rows.sort()
table = "| property | obligations claimed | what the check establishes (first sentence of level_claimed) |\n|---|---|---|\n" + "\n".join(r for _, r in rows) + "\n"
p = '/verif/DESIGN.md'
s = open(p).read()
a = s.index('| property | obligations claimed |')
b = s.index('\n---------------------------------------------------------------------------------', a)
s = s[:a] + table + s[b:]
open(p, 'w').write(s)
print("status table rewritten:", len(rows), "rows")
