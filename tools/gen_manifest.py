#!/usr/bin/env python3
"""Generates /verif/MANIFEST.json from the table below (kept here so the manifest stays valid and consistent)."""
import json, subprocess

PROPS = [json.loads(l) for l in open('/verif/properties.jsonl')]
hook_commits = subprocess.run(['git', '-C', '/repo', 'log', '--format=%h %s', '--grep=^verif:'], capture_output=True, text=True).stdout.strip().splitlines()

# id -> (category, text, level_note, technique, design_ref)
CLAIMED = {
 "C16": ("proof",
  "Contract proof over the real SSA of the JWT signer: (1) jwtSigner.load is atomic with respect to failure - whenever it returns an error the active JWK, the signing key and the published key set are exactly what they were (a rejected reload changes nothing); after success the active JWK and the signing key come from one and the same key store entry, the published set holds the JWK of every entry of the store in order (quantified loop invariant over the ghost log of Entry.JWK calls), and without a configured key id the active entry is the first one; (2) Entry.JWK names the entry's key id, carries pubOf(private key) and the certificate chain only; Keys() returns the published set unchanged; (3) jwtSigner.Sign builds the go-jose signer from the algorithm, key and key id of one signer state (cut-point assertions at NewSigner/WithHeader) and hands the token builder a claims map whose sub, iss, iat = nbf = issue time and exp = issue time + ttl are set after, and therefore regardless of, the custom claims (cut-point assertions at Builder.Claims, map theory). All key stores, claims, subjects and TTLs; unbounded.",
  "Not modelled: the RWMutex - that Sign reads algorithm/key/key id under one read lock and load publishes under one write lock is visible in the contracts only as 'one state' (old(s.jwk), old(s.key)); the interleaving clause of the property rests on that lock discipline, which is not checked (no concurrency in the technique). Membership of the active JWK in the published set is proved for the no-key-id case directly and for a configured key id only up to KeyStore.GetKey returning an entry of the store (contract: pure; the membership itself is not stated). Trusted: go-jose builders effect-free, koanf maps.Merge havocs the heap (claims set afterwards), frame specs of keystore.NewKeyStoreFromPEMFile and pkix.ValidateCertificate (trusted in-repo, reasons in specs/keystore_frames.spec), time spec. The management handler that serves Keys() and the jwtFinalizer's template rendering are not under contract.",
  "contract-based deductive verification (govc VC generation over go/ssa, z3/cvc5)", "DESIGN.md §6 C16"),
 "C18": ("proof",
  "Contract proof over the real SSA of the reaction of the file system, HTTP endpoint and cloud blob providers to one source event, with ghost logs of the state-map operations (sync.Map Load/Store/Delete), the parser calls and the processor calls (OnCreated/OnUpdated/OnDeleted): a file/endpoint whose new content does not parse leaves state and processor untouched (previous version stays active); empty, vanished or failing sources are unloaded exactly when they were loaded; unknown content is created once, changed content updated once, unchanged content triggers nothing; the new hash is remembered exactly when the processor accepted the change; a received but unparsable HTTP response is classified as internal error (unless empty); every rule set fetched from a bucket is examined, OnCreated only for new ones, OnUpdated only for known ones with a different hash. All events and fetch outcomes, unbounded.",
  "The convergence over whole histories is the induction over these per-event transition contracts plus sync.Map's documented semantics (pen and paper, DESIGN.md); the Kubernetes provider (informer callbacks) and the watcher goroutines/schedulers that deliver the events are not under contract. Trusted: sync.Map/bytes.Equal/slices.Contains/fsnotify.Event.Has specs, slicex.Subtract (trusted in-repo, reads only), errors.Is axioms, errorchain spec.",
  "contract-based deductive verification (govc VC generation over go/ssa, z3/cvc5)", "DESIGN.md §6 C18"),
 "C17": ("proof",
  "Zero-annotation write-frame sweep over the real SSA: every function reachable from the Execute/Handle methods of the mechanisms (authenticators, authorizers, contextualizers, finalizers, error handlers; 260+ functions, recomputed on every run) is proved to store only into memory it allocated itself during the call, memory owned by the request context (ctxOwned), or fields guarded as init-only - never into the mechanism object or anything reachable from it. One obligation per store instruction (wframe#n), for all inputs; a new store in any of these functions generates a new obligation that must discharge (wildcard claims).",
  "Stores done by callees outside the cone (std library, third-party) are covered only through the effect-free/spec list; sync.Map/atomic based memoisation at package level is not a field store and is not seen; the ownership predicate ctxOwned is trusted for what heimdall.Context hands out. Found and fixed: MetadataEndpoint.Get mutating the shared endpoint (data race, reproduced with -race).",
  "contract-based deductive verification (govc VC generation over go/ssa, z3/cvc5)", "DESIGN.md §6 C17"),
 "C19": ("proof",
  "Zero-annotation panic-freedom sweep over the real SSA of the reload and decode entry points (key store / trust store loading, watcher callbacks, rule set parsing and decoding, rule factory, mapstructure decode hooks, provider update handlers; 170+ functions recomputed from the roots on every run): every index, slice, type assertion, nil-map write, division, explicit panic and dereference of a 'nil means nothing there' result of an external call is proved unreachable or guarded, for all inputs; preconditions (supported key sizes, non-empty chains) are proved at every call site; recursive calls need a decreases measure. 670+ obligations; ten genuine crashes found, replayed from file/rule-set bytes on the real code and fixed (7 fix commits).",
  "Not claimed (listed as undecided in the evidence): type assertions on sync.Map values and after reflect.Kind checks, radix tree indexing (generic code, needs structural invariants), CompositeExtractStrategy on an empty strategy list (request path, recovered by the recovery middleware), termination of buildChain (bounded stand-in: certificate cycle test run on every check, labelled bounded). Generic nil dereferences are not checked (receivers and results of in-repo constructors are taken non-nil); loops are not checked for termination; panics inside third-party decoders are out of reach; the request path relies on the recovery middleware (not under contract).",
  "contract-based deductive verification (govc VC generation over go/ssa, z3/cvc5)", "DESIGN.md §6 C19"),
 "C10": ("proof",
  "Contract proof over the real SSA: the four getCacheTTL functions are proved against postconditions taken from the property (0 <= ttl, configured 0 disables, ttl <= configured, ttl <= remaining lifetime minus leeway), and every call of cache.Cache.Set in heimdall is proved to pass ttl > 0 (call-site precondition of the interface contract). All inputs, unbounded.",
  "Trusted: specs of package time (ghost clock), cachecontrol/ttlcache/redis behaviour, effect-free list; integers mathematical (no overflow obligation on the seconds->Duration multiplication); expiry enforcement inside ttlcache/redis is assumed.",
  "contract-based deductive verification (govc VC generation over go/ssa, z3/cvc5)", "DESIGN.md §6 C10"),
 "C14": ("proof",
  "Contract proof of ruleFactory.CreateRule / initWithDefaultRule / NewRuleFactory over the real SSA: for every stage (authentication, authorization/contextualization, finalization, error handling) the effective pipeline is the rule's own (the logged result of the pipeline builders) when non-empty, else the default rule's, else empty; backtracking is the rule's own setting, else the default rule's, else off; a rule without authenticator, or without forward_to in proxy mode, is rejected; default slash handling is off. All default rules x all rule definitions, unbounded.",
  "Not yet under contract: the ordering automaton inside createExecutePipeline (authenticators, then authorizers/contextualizers, then finalizers) and unknown-mechanism errors; the own-setting clause with a default rule present relies on the cell-heap immutability analysis. Trusted: effect-free list, factory fields init-only (checked by whole-program scan).",
  "contract-based deductive verification (govc VC generation over go/ssa, z3/cvc5)", "DESIGN.md §6 C14"),
 "C04": ("proof",
  "Contract proof over the real SSA with a ghost log of authenticator calls: compositeSubjectCreator.Execute tries the configured authenticators in order, returns the subject of the first success, and reaches a later authenticator only if every earlier one failed with ErrArgument (no usable credentials) or allows fallback (loop invariant over the call log, all chain lengths). Every authenticator implementation is checked against the interface contract (success implies a subject); rule-level WithConfig overrides of allow_fallback_on_error are proved to be exactly the override, else the catalogue value.",
  "Not yet under contract: the classification of each authenticator's own errors (ErrArgument only when no credentials were found) - errorchain is trusted-in-repo and the extractors are not annotated yet. errors.Is is an uninterpreted relation with the axioms of specs/errors.spec.",
  "contract-based deductive verification (govc VC generation over go/ssa, z3/cvc5)", "DESIGN.md §6 C04"),
 "C01": ("proof",
  "Contract proof over the real SSA with ghost call logs (authenticator calls, pipeline steps, condition evaluations, CEL evaluations, error handlers, SetPipelineError): ruleImpl.Execute returns nil error only if an authenticator produced a subject and every configured step of both composites ran and returned nil or is continue-on-error, or a non-nil pipeline error was recorded on the context last; conditional steps run exactly when their condition is true, are skipped when false and fail when the condition cannot be evaluated (CEL runtime errors are passed through, never turned into 'false'); every error handler implementation that reports success has recorded a non-nil pipeline error; the executor runs a rule only if the repository returned one. Unbounded in pipeline length and outcome vectors.",
  "The three entry points are under contract too: service.handler.ServeHTTP finalizes only when Execute returned no error and sends every error to the error handler; decision/proxy/Envoy Finalize write the accepted status / forward / build the OK response only when no pipeline error is recorded. Composition lemma (pen and paper, DESIGN.md): rule-level contract + Finalize contracts + handler contract => positive answer only after a completed pipeline; the link between a logged ctx.SetPipelineError call and the concrete context field is Go dynamic dispatch (trusted). Not yet under contract: the panic recovery middleware. Trusted: cel-go Program.Eval spec, errors.Is axioms, Go dynamic dispatch for logged interface calls.",
  "contract-based deductive verification (govc VC generation over go/ssa, z3/cvc5)", "DESIGN.md §6 C01"),
 "C12": ("proof",
  "Contract proof over the real SSA of both error translators against one classification function written from the property (authentication, authorization, communication|timeout, precondition, no-rule, redirect, else internal, in that order): HTTP errorHandler.HandleError writes exactly one status, the code captured by the handler configured for that class; defaults are proved to be 401/403/502/400/404/500 and each With*Code option to install exactly the configured code; the per-class writer calls WriteHeader once with its code and sends body/Content-Type only when verbose. The Envoy interceptor returns a denied response whose HTTP status is the code captured for the same class (same order), never an OK response on the error path. A failed upstream exchange in proxy mode is recorded as a communication error. Function values stored in option structs are resolved by a whole-program closed-world scan; captured variables by an effectively-final check.",
  "Not covered: redirect/www-authenticate header emission (Location, WWW-Authenticate - see DESIGN.md, candidate finding), content negotiation (contenttype library) and the body format; the agreement of the two translators follows from both being proved against the same classification and the same default/override facts (stated in DESIGN.md, not a machine-checked lemma). Trusted: errorchain builder spec (functional abstraction), errors.Is axioms, net/http ResponseWriter spec.",
  "contract-based deductive verification (govc VC generation over go/ssa, z3/cvc5)", "DESIGN.md §6 C12"),
 "C08": ("proof",
  "Contract proof over the real SSA (strings as SMT strings, ReplaceAll/PathUnescape uninterpreted): with the setting off (and for the default rule, proved in C14/initWithDefaultRule) no pipeline step is called when the raw path contains an encoded slash in either hex case (cut-point assertion at the first pipeline call) and the request is answered with the precondition error; unescape returns the decoded value with %2F/%2f staying encoded unless the setting is on (against a spec function written from the property); path_params are compared with the decoded segment under every setting.",
  "Not covered by contracts: the first sentence's lookup part (repository.FindRule looks literal segments up by the raw path as received: an encoded unreserved character in a literal segment selects a different rule - recorded as candidate, radix tree lookups are not under contract yet), the upstream path in Backend.CreateURL, extractURL. url.PathUnescape and strings.ReplaceAll are uninterpreted functions (equal arguments give equal results).",
  "contract-based deductive verification (govc VC generation over go/ssa, z3/cvc5)", "DESIGN.md §6 C08"),
 "C03": ("proof",
  "Contract proof over the real SSA: scheme (only when set), method list (empty = any), host (decided by the typed matcher on the request host) and composite (conjunction in order, via a ghost log of member calls) matchers against their specifications; the host condition is one any-of matcher over all listed expressions; glob expressions are compiled once per matcher with the separator of their use; the exact matcher is equality; path_params see the decoded segment per encoded-slash setting (shared with C08); captured values are decoded by unescape.",
  "Not covered: which keys/values the radix tree hands to the matcher (free-wildcard captures - candidate finding, tree lookups not under contract yet), createMethodMatcher's ALL/negation set algebra, glob/regex engines (external).",
  "contract-based deductive verification (govc VC generation over go/ssa, z3/cvc5)", "DESIGN.md §6 C03"),
 "C09": ("proof",
  "Contract proof over the real SSA: the trusted-proxy middleware calls the trust decision once; for an untrusted peer it deletes every header of the list (proved to be exactly the seven of the property by a contract on the package initialiser) from the request before the next handler is invoked (cut-point assertion at that call), for a trusted peer it edits nothing; the trust decision is true iff some listed entry contains the peer address (single addresses by equality); list entries are parsed as written (CIDR notation by ParseCIDR, others by ParseIP - cut-point assertions on the arguments); extractURL/extractMethod take each component from its own forwarded header when present and from the actual request otherwise (host and scheme do not depend on X-Forwarded-Uri).",
  "Not covered: requestClientIPs (Forwarded / X-Forwarded-For parsing), the forwarded headers the proxy writes itself (C15), canonicalisation of header names by net/http (assumed), net.ParseIP/ParseCIDR/IP.Equal semantics (trusted). The lemma 'deleted header => Header.Get returns "" => actual request is used' is pen-and-paper over the two contracts and the net/http spec.",
  "contract-based deductive verification (govc VC generation over go/ssa, z3/cvc5)", "DESIGN.md §6 C09"),
 "C11": ("proof",
  "Contract proof over the real SSA with ghost logs of every Write to a digest/buffer: (1) order independence - in every function that derives a cache key or a component digest (Endpoint.Hash, Subject.Hash, the calculateCacheKey functions of the remote authorizer, generic contextualizer, JWT finalizer and the three caching authenticators) no write to the digest is reachable inside a loop that ranges over a map (claimed per function by wildcard, so a newly introduced loop is reported); (2) coverage - the key's own digest receives the endpoint digest, the mechanism id, the rendered payload / URL, the presented credential and the digest of the whole subject (id and attributes), each proved as 'some write to the digest created by this call carries exactly that value'.",
  "Not covered: unambiguity of the concatenation (components are written without separators or length prefixes - candidate finding, not decided), whether rule-level assertions/expressions are part of the key, validation-before-caching and no-call-on-hit. SHA-256 treated as injective on the written sequence; stringx.ToBytes (unsafe) trusted as identity on bytes; json.Marshal of a map is key-sorted (std behaviour, trusted).",
  "contract-based deductive verification (govc VC generation over go/ssa, z3/cvc5)", "DESIGN.md §6 C11"),
 "C05": ("proof",
  "Contract proof of the guard structure over the real SSA: verifyTokenWithKey succeeds only if the key's declared algorithm equals the token header's, AssertAlgorithm was called on exactly that algorithm under the assertions in force and passed, the token's claims were obtained through go-jose's verifying Claims(key, ...) call with exactly that key, Claims.Validate ran under exactly those assertions and passed, and the returned payload is the marshalled verified claims. Claims.Validate succeeds only if issuer, audience, validity period, issuance time and scopes were each asserted under the given expectation and none failed; AssertAlgorithm/AssertIssuer are membership, AssertValidity is proved equivalent to the leeway arithmetic of the property over the clock reading it takes; Expectation.Merge gives precedence field by field; rule-level WithConfig merges the rule's assertions over the catalogue's (with cover obligations making sure 'rule does not set scopes' stays a reachable case).",
  "Not covered: signature mathematics and token parsing (go-jose: token.Claims returns nil only for a valid signature - trusted), byte-level mutation resistance, getKey/verifyTokenWithoutKID (which key is used: candidates from the fetched set only - not under contract yet), the scope matchers' semantics (only proved read-only), subject creation from the verified payload in Execute.",
  "contract-based deductive verification (govc VC generation over go/ssa, z3/cvc5)", "DESIGN.md §6 C05"),
}
NOT_APPLICABLE = {
 "C20": "no contract within reach expresses or decides it: the behaviour lives in reflection-driven third-party code (koanf, mapstructure, yaml, jsonschema) and recursive any-typed merges; see DESIGN.md §6 C20",
}

checks = []
for p in PROPS:
    pid = p["id"]
    if pid not in CLAIMED:
        continue
    cat, text, note, tech, ref = CLAIMED[pid]
    checks.append({
        "property_id": pid,
        "quick_cmd": f"bin/check {pid} --tier quick",
        "thorough_cmd": f"bin/check {pid} --tier thorough",
        "evidence_file": f"/verif/evidence/{pid}.json",
        "replay_cmd_template": "cat {path}   # replay file: failed obligation, SMT script, solver outputs, counterexample values, and the go test -overlay command that replays it on /repo",
        "engine": "govc",
        "level_claimed": {"category": cat, "text": text, "design_ref": ref},
        "level_note": note,
        "technique": tech,
    })
na = []
for p in PROPS:
    pid = p["id"]
    if pid in CLAIMED:
        continue
    na.append({"property_id": pid, "reason": NOT_APPLICABLE.get(pid, "not claimed yet: contracts for this property are still under construction (no check registered rather than an unsound one)")})

m = {
 "version": 1,
 "setup_cmd": "cd /verif/engine && GOFLAGS=-mod=mod GOPROXY=off GOSUMDB=off GOTOOLCHAIN=local go build -o /verif/bin/govc .",
 "hooks": {
  "guard": "verif",
  "enable": "go build tag `verif`: comment-only contract files internal/**/verif_contracts.go (//go:build verif); govc loads /repo with -tags=verif. No executable code is added.",
  "baseline_off_cmd": "cd /repo && GOFLAGS=-mod=mod GOPROXY=off GOSUMDB=off GOTOOLCHAIN=local go test -vet=off -count=1 -timeout 25m ./...",
  "source_commits": [c.split()[0] for c in hook_commits],
  "add_only": True,
 },
 "engines": [{"name": "govc", "path": "/verif/engine", "serves_properties": sorted(CLAIMED),
              "kind_free_text": "self-written verification-condition generator for Go (go/packages + go/ssa of the real sources on every run; contracts in Gobra-style //@ comments; block-wise symbolic execution with loop invariants, modular calls, ghost state); obligations discharged by racing z3 4.8.12, z3 5.1.0 and cvc5 1.0; counterexamples replayed on the real code with go test -overlay"}],
 "checks": checks,
 "notes": "Every check regenerates its obligations from /repo's working tree. A VIOLATION is a claimed obligation (contracts/claims/<id>.txt) that no longer discharges; see DESIGN.md §4.",
 "not_applicable": na,
}
json.dump(m, open('/verif/MANIFEST.json', 'w'), indent=1)
print("checks:", [c["property_id"] for c in checks], "n/a:", len(na))
