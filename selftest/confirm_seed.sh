#!/bin/sh
# usage: confirm_seed.sh <seed-dir> <i> [test packages...]
# Confirms in a scratch worktree of /repo HEAD that patch<i>.diff compiles, keeps the given
# package tests green, and that demo<i>_test.go fails with the patch and passes without it.
export GOFLAGS=-mod=mod GOPROXY=off GOSUMDB=off GOTOOLCHAIN=local
SD="$1"; I="$2"; shift 2
WT=/tmp/confirm-$$
git -C /repo worktree add -q --detach "$WT" HEAD || exit 2
trap 'git -C /repo worktree remove --force "$WT" >/dev/null 2>&1' EXIT
cd "$WT" || exit 2
PKGDIR=$(python3 -c "import json,sys; print(json.load(open('$SD/meta$I.json'))['demo_pkg_dir'])")
RUN=$(python3 -c "import json,re; m=json.load(open('$SD/meta$I.json'))['demo_run']; r=re.search(r'-run\s+(\S+)',m); print(r.group(1).strip(chr(39)+chr(34)) if r else 'Test')")
git apply "$SD/patch$I.diff" || { echo "CONFIRM: patch does not apply"; exit 1; }
go build ./... || { echo "CONFIRM: build fails"; exit 1; }
if [ $# -gt 0 ]; then
  go test -vet=off -count=1 "$@" > /tmp/confirm-tests.log 2>&1
  if grep -q "^FAIL\|^--- FAIL" /tmp/confirm-tests.log; then
    grep "^--- FAIL\|^FAIL" /tmp/confirm-tests.log | grep -v "filesystem" | head -5
    if grep "^--- FAIL" /tmp/confirm-tests.log | grep -qv "TestProviderLifecycle"; then echo "CONFIRM: existing tests FAIL with patch"; exit 1; fi
  fi
  echo "CONFIRM: existing tests pass with patch ($*)"
fi
cp "$SD/demo${I}_test.go" "$PKGDIR/zz_seed_demo_test.go"
if go test -vet=off -count=1 -run "$RUN" "./$PKGDIR" > /tmp/confirm-demo.log 2>&1; then echo "CONFIRM: demo PASSES with patch (bad)"; tail -5 /tmp/confirm-demo.log; exit 1; else echo "CONFIRM: demo fails with patch (good)"; fi
git apply -R "$SD/patch$I.diff"
if go test -vet=off -count=1 -run "$RUN" "./$PKGDIR" > /tmp/confirm-demo2.log 2>&1; then echo "CONFIRM: demo passes without patch (good)"; else echo "CONFIRM: demo FAILS without patch (bad)"; tail -15 /tmp/confirm-demo2.log; exit 1; fi
echo "CONFIRM: OK"
