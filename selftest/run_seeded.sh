#!/bin/sh
# usage: run_seeded.sh <property> <patch-file> [extra check args]
# Applies a seeded change to /repo (or to the checkout named by SEED_REPO), runs the property's quick
# check, and undoes the change.
P="$1"; PATCH="$2"; shift 2
R="${SEED_REPO:-/repo}"; export VERIF_REPO="$R"
cd "$R" || exit 2
if [ -n "$(git status --porcelain --untracked-files=no)" ]; then echo "run_seeded: /repo has uncommitted changes"; exit 2; fi
git apply "$PATCH" || { echo "run_seeded: patch does not apply"; exit 2; }
/verif/bin/check "$P" "$@" > /tmp/run_seeded.$P.out 2>&1
RC=$?
git checkout -- . 
git clean -fdq internal >/dev/null 2>&1
grep "^VIOLATION\|^FAILED-OBLIGATION\|^MISSING\|^SUMMARY\|ENGINE-ERROR\|CONTRACT-ERROR" /tmp/run_seeded.$P.out | cut -c1-260
echo "exit=$RC"
exit $RC
