#!/bin/sh
# usage: run_seeded.sh <property> <patch-file> [extra check args]
# Applies a seeded change to /repo, runs the property's quick check, and undoes the change.
P="$1"; PATCH="$2"; shift 2
cd /repo || exit 2
if [ -n "$(git status --porcelain --untracked-files=no)" ]; then echo "run_seeded: /repo has uncommitted changes"; exit 2; fi
git apply "$PATCH" || { echo "run_seeded: patch does not apply"; exit 2; }
/verif/bin/check "$P" "$@" > /tmp/run_seeded.out 2>&1
RC=$?
git checkout -- . 
git clean -fdq internal >/dev/null 2>&1
grep "^VIOLATION\|^FAILED-OBLIGATION\|^MISSING\|^SUMMARY\|ENGINE-ERROR\|CONTRACT-ERROR" /tmp/run_seeded.out | cut -c1-260
echo "exit=$RC"
exit $RC
