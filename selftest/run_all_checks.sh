#!/bin/sh
# Runs the quick check of every registered property on the current /repo tree; prints one line each
# and exits non-zero if any check does (use before every commit of engine/spec/contract changes).
cd /verif || exit 2
RC=0
for p in $(python3 -c "import json; print(' '.join(c['property_id'] for c in json.load(open('/verif/MANIFEST.json'))['checks']))"); do
  OUT=$(./bin/check "$p" 2>&1); rc=$?
  echo "$p exit=$rc $(echo "$OUT" | grep -a SUMMARY | cut -c1-150)"
  [ $rc -ne 0 ] && { RC=1; echo "$OUT" | grep -a "FAILED\|MISSING\|ERROR" | cut -c1-200 | head -5; }
done
python3 /verif/tools/check_evidence.py || RC=1
exit $RC
