#!/bin/sh
# Must-fail canaries written by hand for engine features (not the sub-agent seeds of /verif/seeded):
# every one has to make the check of its property exit 1. Touches /repo's working tree like run_seeded.sh.
cd /verif/selftest/mutants || exit 2
RC=0
for d in */; do
  d=${d%/}
  P=$(python3 -c "import json; print(json.load(open('/verif/selftest/mutants/$d/meta.json'))['property'])")
  OUT=$(/verif/selftest/run_seeded.sh "$P" "/verif/selftest/mutants/$d/patch.diff" 2>&1)
  rc=$(echo "$OUT" | grep "^exit=" | cut -d= -f2)
  V=$(echo "$OUT" | grep "^VIOLATION" | head -1 | cut -c1-200)
  echo "$d -> exit=$rc $V"
  [ "$rc" = "1" ] || RC=1
done
exit $RC
