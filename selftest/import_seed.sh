#!/bin/sh
# usage: import_seed.sh <seed-dir> <i> <property> <test pkgs...>
# Confirms a sub-agent's change (compiles, existing tests of the given packages pass, demo fails with /
# passes without) in a scratch worktree and stores it under /verif/seeded/<property>-<i>/.
SD="$1"; I="$2"; P="$3"; shift 3
PATCH="$SD/patch$I.diff"
[ -f "$SD/patch${I}_rebased.diff" ] && { cp "$SD/patch$I.diff" "$SD/patch${I}_orig.diff"; cp "$SD/patch${I}_rebased.diff" "$SD/patch$I.diff"; }
OUT=$(/verif/selftest/confirm_seed.sh "$SD" "$I" "$@" 2>&1)
echo "$OUT" | grep CONFIRM
echo "$OUT" | grep -q "CONFIRM: OK" || { echo "NOT imported"; exit 1; }
D=/verif/seeded/$P-$I
mkdir -p "$D"
cp "$SD/patch$I.diff" "$D/patch.diff"
cp "$SD/demo${I}_test.go" "$D/demo_test.go"
python3 - "$SD/meta$I.json" "$D/meta.json" "$P" "$*" <<'PY'
import json,sys
m=json.load(open(sys.argv[1]))
m['property']=sys.argv[3]
m['confirmed']={"by":"confirm_seed.sh in a scratch worktree of /repo HEAD","build":"go build ./...","existing_tests_run":sys.argv[4],"demo":"fails with the change, passes without it"}
json.dump(m,open(sys.argv[2],'w'),indent=1)
PY
echo "imported to $D"
