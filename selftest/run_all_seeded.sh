#!/bin/sh
# Runs every stored seeded change against the check of its property; prints one line per seed.
# usage: run_all_seeded.sh [regex on the seed name, e.g. '^C0']   (SEED_REPO names another checkout)
cd /verif/seeded || exit 2
for d in */; do
  d=${d%/}
  [ -n "$1" ] && ! echo "$d" | grep -q "$1" && continue
  P=$(python3 -c "import json; print(json.load(open('/verif/seeded/$d/meta.json'))['property'])")
  EXTRA=$(python3 -c "import json; print(' '.join(json.load(open('/verif/seeded/$d/meta.json')).get('also_check',[])))")
  RES=""
  for Q in $P $EXTRA; do
    OUT=$(/verif/selftest/run_seeded.sh "$Q" "/verif/seeded/$d/patch.diff" 2>&1)
    RC=$(echo "$OUT" | grep "^exit=" | cut -d= -f2)
    OB=$(echo "$OUT" | grep "^FAILED-OBLIGATION\|^MISSING" | head -2 | cut -c1-110 | tr '\n' ';')
    RES="$RES $Q:exit=$RC [$OB]"
  done
  echo "$d ->$RES"
done
